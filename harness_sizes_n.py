"""number of entries of the content corpus, readable by the runner process without importing chuk_mcp"""
import ast, os
_src = open(os.path.join(os.path.dirname(os.path.abspath(__file__)), "harness", "sizes.py"), encoding="utf-8").read()
_t = ast.parse(_src)
N_TEXTS = 0
for _n in _t.body:
    if isinstance(_n, ast.Assign) and getattr(_n.targets[0], "id", None) == "TEXTS":
        N_TEXTS = len(_n.value.elts)
