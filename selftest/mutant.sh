#!/bin/bash
# selftest/mutant.sh <ID> <patch-file|-e 'sed-expr' file> [tier]
# Copies /repo/src to a scratch directory, applies a change, runs the property's check against the
# copy (VERIF_SRC) with evidence/replays/work redirected to the scratch directory, removes it.
# Prints the check's exit code. Not part of MANIFEST commands.
set -u
ID="$1"; shift
S="$(mktemp -d /tmp/verif-mut.XXXXXX)"
cp -r /repo/src "$S/src"
find "$S/src" -name __pycache__ -prune -exec rm -rf {} +
if [ "$1" = "-e" ]; then
  sed -i -e "$2" "$S/src/$3" || exit 9; shift 3
  diff -ru /repo/src "$S/src" | head -20
else
  P="$(realpath "$1")"; (cd "$S" && patch -p1 -s < "$P") || { echo "patch failed"; rm -rf "$S"; exit 9; }; shift
fi
TIER="${1:-quick}"
VERIF_SRC="$S/src" VERIF_WORK="$S/work" VERIF_EVIDENCE_DIR="$S/ev" VERIF_REPLAYS="$S/replays" /verif/bin/check "$ID" --tier "$TIER" ${ONLY:+--only "$ONLY"} 2>&1 | grep -v "^WARNING" | grep -E "VIOLATION|violated|KNOWN|tier=|HARNESS|inconclusive" | head -12
rc=${PIPESTATUS[0]}
rm -rf "$S"
echo "exit=$rc"
