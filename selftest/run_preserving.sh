#!/bin/bash
# Behaviour-preserving rewrites of chuk-mcp: every check named in the file name must stay at exit 0.
cd "$(dirname "$0")/.."
for f in selftest/preserving/*.diff; do
  id=$(basename "$f" | cut -d- -f1)
  r=$(selftest/mutant.sh "$id" "$f" | tail -1)
  echo "$(basename $f): $r"
done
