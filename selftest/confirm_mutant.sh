#!/bin/bash
# selftest/confirm_mutant.sh <seed-name> <property> <worktree>   - confirms an agent-made change and files it under /verif/seeded/<seed-name>
set -u
NAME="$1"; PID="$2"; WT="$3"
D=/verif/seeded/$NAME; mkdir -p "$D"
cp "$WT/MUTANT/patch.diff" "$D/patch.diff"; cp "$WT/MUTANT/notes.md" "$D/notes.md" 2>/dev/null
for f in "$WT"/MUTANT/demo*.py; do cp "$f" "$D/"; done
cd "$WT"
# (git stash is shared between worktrees: never use it here)
git -C "$WT" checkout -q -- src
PYTHONPATH="$WT/src" timeout 120 /venv/bin/python "$WT/MUTANT/demo.py" >/dev/null 2>&1; rc_without=$?
git -C "$WT" apply "$D/patch.diff" || { echo "patch does not apply"; exit 3; }
PYTHONPATH="$WT/src" timeout 120 /venv/bin/python "$WT/MUTANT/demo.py" >/dev/null 2>&1; rc_with=$?
suite=$(cd "$WT" && PYTHONPATH="$WT/src" /venv/bin/python -m pytest -q -p no:cacheprovider --timeout=900 2>&1 | tail -1)
echo "demo without change rc=$rc_without ; with change rc=$rc_with ; suite: $suite"
python3 - "$D" "$PID" "$rc_without" "$rc_with" "$suite" <<'P'
import json,sys
d,pid,a,b,suite=sys.argv[1:6]
json.dump({"property":pid,"demo_exit_without_change":int(a),"demo_exit_with_change":int(b),"test_suite_with_change":suite,
 "needs":"see notes.md","ran":["demo.py with and without the change (PYTHONPATH=<worktree>/src)","full pinned test suite with the change","the property's quick check against a scratch copy of /repo/src with patch.diff applied (selftest/mutant.sh)"]},open(d+"/meta.json","w"),indent=1)
P
