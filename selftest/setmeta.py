#!/usr/bin/env python3
"""selftest/setmeta.py <seed> <needs> <check result text>"""
import json, sys
seed, needs, res = sys.argv[1:4]
p = f"/verif/seeded/{seed}/meta.json"
d = json.load(open(p))
d["needs_to_manifest"] = needs
d.pop("needs", None)
d["check_result"] = res
json.dump(d, open(p, "w"), indent=1)
