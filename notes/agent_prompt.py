#!/usr/bin/env python3
"""Prints the prompt given to an independent sub-agent for one property (only the property text + its scratch worktree)."""
import json, sys
pid, wt = sys.argv[1], sys.argv[2]
variant = sys.argv[3] if len(sys.argv) > 3 else ""
p = [json.loads(l) for l in open('/verif/properties.jsonl') if json.loads(l)['id'] == pid][0]
print(f"""You are helping to evaluate a verification effort by producing a realistic, subtle regression ("seeded defect") for a Python library.

The library is chuk-mcp (a Python implementation of the Model Context Protocol: JSON-RPC messages, version negotiation, stdio/SSE/HTTP transports over anyio). You have your own scratch git worktree of it at {wt} (source under {wt}/src/chuk_mcp, tests under {wt}/tests). Work ONLY inside {wt}. Do not read or touch /repo or /verif or any other directory under /tmp.

The semantic property the library is supposed to satisfy:

  Title: {p['title']}
  Statement: {p['statement']}
  Quantified over: {p['quantifier']['text']}
  Code anchors: {', '.join(p['anchors']['files'])}

Your task: make a SMALL change to the library source under {wt}/src (a few lines, looking like a plausible refactoring, optimisation or bug-fix gone wrong) that BREAKS this property, while
  (1) the package still imports and the whole existing test suite still passes, unedited, with your change:
        cd {wt} && PYTHONPATH={wt}/src /venv/bin/python -m pytest -q -p no:cacheprovider --timeout=900 -x -q 2>&1 | tail -5
      (takes about 2 minutes; 1273 tests pass on the unchanged tree; PYTHONPATH is required so that the worktree's copy is imported), and
  (2) the breakage needs something SPECIFIC to manifest - a particular interleaving or arrival time, a fault at a particular point, a multi-step sequence of operations, an unusual input value, or two cooperating sites that each look fine alone - NOT something that ordinary use or a casual smoke test would expose at once.{variant}

Deliver, in the directory {wt}/MUTANT/ :
  - patch.diff : output of `git -C {wt} diff -- src` (only source changes, no test changes)
  - demo.py : a small self-contained program or pytest file that demonstrates the violation: run as `PYTHONPATH={wt}/src /venv/bin/python {wt}/MUTANT/demo.py` it must exit non-zero (or fail) WITH your change and exit 0 WITHOUT it (verify both with `git diff -- src > MUTANT/patch.diff; git checkout -- src; ...; git apply MUTANT/patch.diff`; do NOT use `git stash`: the stash is shared with other worktrees). It must use only the library's public behaviour (no mocks of the function you changed) and finish in under 60 seconds.
  - notes.md : 5-10 lines: what you changed, why the tests do not notice, and exactly what is needed for the breakage to manifest.
Leave your source change APPLIED in the worktree when you finish. No network is available; use /venv/bin/python. Reply with a short summary (which file/lines, what triggers it, results of the test suite run and of demo.py with and without the change).""")
