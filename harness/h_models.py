"""C09 / C10 - typed protocol models: type-directed wire shapes with symbolic leaves, checked against the
reference 'wire object + declared defaults' under the pure-Python backend; the same shapes with concrete
leaves are run under both real backends for the relational (two-backend) half."""
import importlib
import inspect
import pkgutil
import sys
import typing
from typing import Any, Dict, List, Literal, Optional, Union, get_args, get_origin

from symcheck.env import same_json, HarnessError

BASE = importlib.import_module("chuk_mcp.protocol.mcp_pydantic_base")
McpPydanticBase = BASE.McpPydanticBase
FALLBACK = not getattr(BASE, "PYDANTIC_AVAILABLE", False)


# ------------------------------------------------------------------ discovery
def discover():
    import chuk_mcp

    models = {}
    for mi in pkgutil.walk_packages(chuk_mcp.__path__, "chuk_mcp."):
        if mi.name.endswith("__main__"):
            continue
        try:
            m = importlib.import_module(mi.name)
        except Exception:
            continue
        for n, o in vars(m).items():
            if inspect.isclass(o) and issubclass(o, McpPydanticBase) and o is not McpPydanticBase and o.__module__ == m.__name__:
                models[o.__module__[len("chuk_mcp."):] + "." + n] = o
    return dict(sorted(models.items()))


ALL_MODELS = discover()
# Generic type-directed shapes apply to protocol payload models.  Not in the generic family:
#  - the JSON-RPC envelope classes (structural invariants: error needs code/message ...) - they have their own
#    `envelope` family with every id shape, and C02;
#  - transport configuration classes (transports.*): not wire payloads; their validators (url scheme, positive
#    timeouts) are configuration checks - stdio parameters are exercised by C20.
MODELS = {k: v for k, v in ALL_MODELS.items() if not k.startswith("transports.") and ".json_rpc_message." not in k}
ALIAS_WIRE_NAMES = []  # filled below, after fields_of is defined
EXCLUDED = sorted(set(ALL_MODELS) - set(MODELS))


_FIELDS_CACHE = {}


def fields_of(cls):
    """[(python name, wire name, annotation, required, default or MISSING)] - backend independent.
    Introspection (get_type_hints) is cached per class: under the engine's tracing it costs seconds, and the count
    family calls this once per list item.  Mutable defaults are copied on every call."""
    import copy as _copy

    if cls not in _FIELDS_CACHE:
        _FIELDS_CACHE[cls] = _fields_of_uncached(cls)
    return [(n, w, a, r, (d if (d is MISSING or d is None or isinstance(d, (str, int, float, bool))) else _copy.deepcopy(d))) for n, w, a, r, d in _FIELDS_CACHE[cls]]


def _fields_of_uncached(cls):
    try:
        hints = typing.get_type_hints(cls)
    except Exception:
        hints = dict(getattr(cls, "__annotations__", {}))
    out = []
    for name, ann in hints.items():
        if name.startswith("__") or name in ("model_config", "model_fields", "model_computed_fields"):
            continue
        if get_origin(ann) is typing.ClassVar:
            continue
        alias, required, default = None, True, MISSING
        if FALLBACK:
            f = cls.__model_fields__.get(name)
            if f is None:
                continue
            alias = cls.__field_aliases__.get(name)
            if f.default_factory is not None:
                required, default = False, f.default_factory()
            elif f.default is not ...:
                required, default = False, f.default
            else:
                required = name in cls.__model_required__
                if not required:
                    default = None
        else:
            f = cls.model_fields.get(name)
            if f is None:
                continue
            alias = f.alias
            required = f.is_required()
            if not required:
                default = f.get_default(call_default_factory=True)
        out.append((name, alias or name, ann, required, default))
    return out


class _Missing:
    def __repr__(self):
        return "MISSING"


MISSING = _Missing()


def _is_model(t):
    return inspect.isclass(t) and issubclass(t, McpPydanticBase)


def _strip_optional(t):
    if get_origin(t) is Union:
        args = [a for a in get_args(t) if a is not type(None)]
        if len(args) != len(get_args(t)):
            return (args[0] if len(args) == 1 else Union[tuple(args)]), True
    return t, False


# ------------------------------------------------------------------ shapes: structure concrete, leaves are slots
class Slot:
    def __init__(self, kind, n, prefix=""):
        self.kind, self.n, self.prefix = kind, n, prefix

    def __repr__(self):
        return "<%s%s%d>" % (self.prefix, self.kind, self.n)


# spec-valid leaves for fields with a documented invariant: (class name, field) -> required prefix
FIELD_PREFIX = {("Root", "uri"): "file:///"}
# documented upper bounds of list members (MCP: completion values - at most 100 items)
LIST_MAX = {("CompletionResult", "values"): 100, ("Completion", "values"): 100}


class ShapeBuilder:
    def __init__(self, variant):
        self.variant = variant
        self.counts = {"s": 0, "i": 0, "b": 0}
        self.types = []  # (path, expected class name) for model-typed positions
        self.in_list = False
        self.cur_field = None

    def slot(self, kind):
        n = self.counts[kind]
        self.counts[kind] += 1
        return Slot(kind, n)

    def value(self, t, path, depth, choice):
        t, _opt = _strip_optional(t)
        o = get_origin(t)
        if t is Any:
            return {"any": self.slot("s"), "nul": None}
        if t is str:
            return self.slot("s")
        if t is bool:
            return self.slot("b")
        if t is int:
            return self.slot("i")
        if t is float:
            return 0.5  # rule R2: no symbolic floats
        if t is dict:
            return {"type": "text", "text": self.slot("s")}
        if o is Literal:
            opts = get_args(t)
            return opts[choice % len(opts)]
        if o is Union:
            alts = list(get_args(t))
            return self.value(alts[choice % len(alts)], path, depth, choice // max(len(alts), 1))
        if o in (list, List):
            (it,) = get_args(t) or (Any,)
            n = 1 if self.variant in ("full", "req") else (0 if self.variant == "empty" else 2)
            if self.variant.startswith("list"):
                # count dimension: the OUTERMOST list of the model has the requested length, inner ones one item
                n = int(self.variant[4:]) if not self.in_list else 1
                cap = LIST_MAX.get(self.cur_field)
                if cap is not None and n > cap:
                    n = cap  # documented bound of this member: longer lists are not spec-valid traffic
                was = self.in_list
                self.in_list = True
                try:
                    return [self.value(it, path + "[%d]" % k, depth + 1, choice + (k % 7)) for k in range(n)]
                finally:
                    self.in_list = was
            return [self.value(it, path + "[%d]" % k, depth + 1, choice + k) for k in range(n)]
        if o in (dict, Dict):
            args = get_args(t)
            vt = args[1] if len(args) > 1 else Any
            if vt is Any:
                return {"k": self.slot("s"), "deep": {"z": None, "l": [None, self.slot("i")]}}
            return {"k": self.value(vt, path + ".k", depth + 1, choice)}
        if _is_model(t):
            self.types.append((path, t.__name__))
            return self.model(t, path, depth + 1, choice)
        raise HarnessError("no recipe for annotation %r at %s" % (t, path))

    def model(self, cls, path, depth, choice):
        wire = {}
        for name, wname, ann, required, default in fields_of(cls):
            if not required and (self.variant == "req" or depth > 2):
                continue
            if not required and self.variant.startswith("only:") and depth == 0 and self.variant[5:] != name:
                continue
            self.cur_field = (cls.__name__, name)
            v = self.value(ann, (path + "." if path else "") + wname, depth, choice)
            if isinstance(v, Slot) and (cls.__name__, name) in FIELD_PREFIX:
                v.prefix = FIELD_PREFIX[(cls.__name__, name)]
            wire[wname] = v
        if self.variant in ("full", "two", "empty", "meta") and depth == 0:
            wire["x_unknown_member"] = {"kept": self.slot("s")}
        if self.variant == "meta" and depth == 0:
            # every wire name that is an alias SOMEWHERE in the package, given to a model that does not declare it:
            # it is an ordinary unknown member there and must come back under exactly that name
            for w in ALIAS_WIRE_NAMES:
                if w not in wire and w not in [wn for _, wn, *_ in fields_of(cls)]:
                    wire[w] = {"sentinel": self.slot("s")}
        return wire


def _alias_wire_names():
    out = set()
    for cls in ALL_MODELS.values():
        for name, wname, *_ in fields_of(cls):
            if wname != name:
                out.add(wname)
    return sorted(out)


def same_name_pairs():
    """distinct model classes that share their class name (e.g. messages.tools.Tool / types.tools.Tool)"""
    by = {}
    for k, c in MODELS.items():
        by.setdefault(c.__name__, []).append(k)
    return [(ks[i], ks[j]) for ks in by.values() if len(ks) > 1 for i in range(len(ks)) for j in range(len(ks)) if i != j]


def pair_order(key_a, key_b, s0, s1, i0, b0):
    """two same-named classes used one after the other IN ONE PROCESS: neither may inherit the other's field types,
    aliases or defaults (per-name caches)"""
    r = lossless(key_a, "meta", 0, s0, s1, i0, b0)
    if r != "ok":
        return "first:" + r
    r = lossless(key_b, "meta", 0, s0, s1, i0, b0)
    if r != "ok":
        return "second:" + r
    r = lossless(key_a, "full", 0, s1, s0, i0, b0)
    if r != "ok":
        return "first-again:" + r
    return "ok"


def variants_for(cls, tier):
    vs = ["req", "full"]
    fs = fields_of(cls)
    has_list = any(get_origin(_strip_optional(a)[0]) in (list, List) for _, _, a, _, _ in fs)
    if has_list:
        vs += ["two", "empty"]
    if tier != "quick":
        opt = [n for n, _, _, req, _ in fs if not req]
        if len(opt) <= 6:
            vs += ["only:" + n for n in opt]
    return vs


def union_choices(cls):
    """how many alternative choices (Literal options / Union variants) the model's fields have at most"""
    m = 1
    for _, _, ann, _, _ in fields_of(cls):
        t, _ = _strip_optional(ann)
        o = get_origin(t)
        if o is Literal or o is Union:
            m = max(m, len(get_args(t)))
        if o in (list, List):
            (it,) = get_args(t) or (Any,)
            it, _ = _strip_optional(it)
            if get_origin(it) in (Literal, Union):
                m = max(m, len(get_args(it)))
    return m


def build(key, variant, choice):
    cls = MODELS[key]
    b = ShapeBuilder(variant)
    wire = b.model(cls, "", 0, choice)
    return cls, wire, b.counts, b.types


def fill(x, leaves):
    if isinstance(x, Slot):
        pool = leaves[x.kind]
        v = pool[x.n % len(pool)]
        return (x.prefix + v) if x.prefix else v
    if isinstance(x, dict):
        return {k: fill(v, leaves) for k, v in x.items()}
    if isinstance(x, list):
        return [fill(v, leaves) for v in x]
    return x


# ------------------------------------------------------------------ reference: wire + declared defaults
def expected(cls, wire):
    out = {}
    known = {}
    for name, wname, ann, required, default in fields_of(cls):
        known[wname] = (name, ann, default)
        known[name] = (name, ann, default)
    seen = set()
    for k, v in wire.items():
        if k in known:
            name, ann, _ = known[k]
            wname = [w for n, w, *_ in fields_of(cls) if n == name][0]
            seen.add(name)
            if v is not None:
                out[wname] = expected_value(ann, v)
        else:
            if v is not None:
                out[k] = v
    for name, wname, ann, required, default in fields_of(cls):
        if name not in seen and default is not MISSING and default is not None:
            out[wname] = expected_value(ann, default) if not _is_model(type(default)) else default.model_dump(by_alias=True, exclude_none=True)
    return out


def expected_value(ann, v):
    t, _ = _strip_optional(ann)
    o = get_origin(t)
    if v is None:
        return None
    if _is_model(t) and isinstance(v, dict):
        return expected(t, v)
    if o is Union and isinstance(v, dict):
        for alt in get_args(t):
            if _is_model(alt) and _accepts(alt, v):
                return expected(alt, v)
        return v
    if o in (list, List) and isinstance(v, list):
        (it,) = get_args(t) or (Any,)
        return [expected_value(it, x) for x in v]
    if o in (dict, Dict) and isinstance(v, dict):
        args = get_args(t)
        vt = args[1] if len(args) > 1 else Any
        if vt is Any:
            return v
        return {k: expected_value(vt, x) for k, x in v.items()}
    return v


def _accepts(cls, wire):
    """reference variant selection for discriminated content: required members present and literal members equal"""
    for name, wname, ann, required, default in fields_of(cls):
        t, _ = _strip_optional(ann)
        if get_origin(t) is Literal:
            if wname in wire and wire[wname] not in get_args(t):
                return False
        if required and wname not in wire and name not in wire:
            return False
    return True


def expected_type_at(cls, wire, path_types):
    return path_types


def _get_path(obj, path):
    cur = obj
    for part in path.replace("]", "").replace("[", ".").split("."):
        if part == "":
            continue
        if isinstance(cur, list):
            cur = cur[int(part)]
        elif isinstance(cur, dict):
            cur = cur[part]
        else:
            # attribute by wire name or python name
            if hasattr(cur, part):
                cur = getattr(cur, part)
            else:
                alt = {w: n for n, w, *_ in fields_of(type(cur))}.get(part)
                cur = getattr(cur, alt)
    return cur


def lossless(key, variant, choice, s0, s1, i0, b0):
    """validate -> dump(by_alias, exclude_none) == wire + declared defaults; nested positions carry the declared class"""
    cls, shape, counts, types = build(key, variant, choice)
    wire = fill(shape, {"s": [s0, s1], "i": [i0], "b": [b0]})
    import copy

    ref = expected(cls, copy.deepcopy(wire))
    try:
        m = cls.model_validate(wire)
    except Exception as e:
        return "valid-wire-object-rejected:" + type(e).__name__
    if type(m) is not cls:
        return "validated-to-a-different-class"
    d = m.model_dump(by_alias=True, exclude_none=True)
    if not same_json(d, ref):
        return _diff(d, ref)
    for path, cname in types:
        try:
            v = _get_path(m, path)
        except Exception:
            return "nested-position-missing:" + path
        if isinstance(v, dict):
            return "nested-model-left-as-plain-dict:" + path
    # second round trip is stable
    try:
        m2 = cls.model_validate(d)
    except Exception as e:
        return "own-dump-rejected:" + type(e).__name__
    if not same_json(m2.model_dump(by_alias=True, exclude_none=True), d):
        return "dump-not-stable"
    return "ok"


def _diff(d, ref):
    for k in ref:
        if k not in d:
            return "member-lost:" + str(k)
    for k in d:
        if k not in ref:
            return "member-added-that-is-no-declared-default:" + str(k)
    for k in ref:
        if not same_json(d[k], ref[k]):
            return "member-changed:" + str(k)
    return "differs"


def variant_typing(key, choice):
    """discriminated unions keep their variant: the class chosen for a union position is the one whose literal tag matches"""
    cls, shape, counts, types = build(key, "full", choice)
    wire = fill(shape, {"s": ["a", "b"], "i": [1], "b": [True]})
    m = cls.model_validate(wire)
    for name, wname, ann, required, default in fields_of(cls):
        t, _ = _strip_optional(ann)
        items = None
        if get_origin(t) is Union:
            items = [(getattr(m, name), wire.get(wname), t)]
        elif get_origin(t) in (list, List):
            (it,) = get_args(t) or (Any,)
            it, _ = _strip_optional(it)
            if get_origin(it) is Union:
                items = [(x, w, it) for x, w in zip(getattr(m, name) or [], wire.get(wname) or [])]
        for val, w, ut in items or []:
            if not isinstance(w, dict):
                continue
            want = None
            for alt in get_args(ut):
                if _is_model(alt) and _accepts(alt, w):
                    want = alt
                    break
            if want is not None and type(val) is not want:
                return "union-variant-mistyped:" + name + ":got-" + type(val).__name__ + "-want-" + want.__name__
    return "ok"


# ------------------------------------------------------------------ envelopes with every id shape
def envelope(kind, rid, leaf):
    JM = sys.modules["chuk_mcp.protocol.messages.json_rpc_message"]
    if kind == 0:
        wire = {"jsonrpc": "2.0", "id": rid, "method": "m", "params": {"a": leaf, "n": None}}
    elif kind == 1:
        wire = {"jsonrpc": "2.0", "method": "m"}
    elif kind == 2:
        wire = {"jsonrpc": "2.0", "id": rid, "result": {"a": [None, leaf]}}
    else:
        wire = {"jsonrpc": "2.0", "id": rid, "error": {"code": -32000, "message": leaf}}
    m = JM.parse_message(wire)
    d = m.model_dump(exclude_none=True)
    for k in wire:
        if k not in d or not same_json(d[k], wire[k]):
            return "envelope-member-changed:" + k
    for k in d:
        if k not in wire:
            return "envelope-member-added:" + k
    flags = (m.is_request(), m.is_notification(), m.is_response()) if hasattr(m, "is_request") else None
    want = (kind == 0, kind == 1, kind in (2, 3))
    if flags is not None and flags != want:
        return "envelope-kind"
    return "ok"


# ------------------------------------------------------------------ documented invariants
def invariant_root(uri):
    R = MODELS["protocol.messages.roots.send_messages.Root"]
    try:
        R(uri=uri)
        accepted = True
    except Exception:
        accepted = False
    if uri.startswith("file://") != accepted:
        return "root-uri-invariant-not-enforced" if accepted else "file-root-rejected"
    return "ok"


def invariant_completion(n):
    C = MODELS["protocol.messages.completions.send_messages.CompletionResult"]
    vals = ["v"] * n
    try:
        C(values=vals)
        accepted = True
    except Exception:
        accepted = False
    if (n <= 100) != accepted:
        return "completion-limit-not-enforced" if accepted else "valid-completion-rejected"
    return "ok"


# ------------------------------------------------------------------ two real backends on concrete witnesses (native)
LEAF_POOL = [
    ("a", "b", 1, True),
    ("", "0", 0, False),
    ("123", "-7", -1, True),
    ("true", "é ", 2 ** 63, False),
    ("1.5", "null", 2 ** 64 - 1, True),
]


def witness_outcomes(tier):
    """accept/reject, class names of nested positions and dump for every (model, variant, choice, leaf tuple)"""
    res = {}
    for key, cls in MODELS.items():
        for variant in variants_for(cls, tier):
            for choice in range(union_choices(cls)):
                try:
                    _, shape, counts, types = build(key, variant, choice)
                except HarnessError as e:
                    res["%s|%s|%d" % (key, variant, choice)] = "no-recipe:" + str(e)
                    continue
                for li, (s0, s1, i0, b0) in enumerate(LEAF_POOL):
                    wire = fill(shape, {"s": [s0, s1], "i": [i0], "b": [b0]})
                    tag = "%s|%s|%d|%d" % (key, variant, choice, li)
                    try:
                        m = cls.model_validate(wire)
                        names = []
                        for path, _c in types:
                            try:
                                names.append(type(_get_path(m, path)).__name__)
                            except Exception:
                                names.append("?")
                        res[tag] = ["accepted", names, m.model_dump(by_alias=True, exclude_none=True)]
                    except Exception as e:
                        res[tag] = ["rejected"]
    # JSON-RPC envelopes with every id shape of the property's corpus, through the library's own parser
    JM = sys.modules.get("chuk_mcp.protocol.messages.json_rpc_message") or importlib.import_module("chuk_mcp.protocol.messages.json_rpc_message")
    ids = [0, -1, 7, 2 ** 63, 2 ** 64 - 1, "", "0", "123", "-7", "abc", "caf\u00e9"]
    for i, rid in enumerate(ids):
        for kind, wire in (
            ("request", {"jsonrpc": "2.0", "id": rid, "method": "m", "params": {"a": None, "b": [None, 1]}}),
            ("result", {"jsonrpc": "2.0", "id": rid, "result": {"x": {"y": None}}}),
            ("error", {"jsonrpc": "2.0", "id": rid, "error": {"code": -32000, "message": "e", "data": None}}),
        ):
            tag = "envelope|%s|%d" % (kind, i)
            try:
                m = JM.parse_message(wire)
                d = m.model_dump(exclude_none=True)
                res[tag] = ["accepted", type(m).__name__, type(d.get("id")).__name__, d]
            except Exception:
                res[tag] = ["rejected"]
    res["envelope|notification"] = ["accepted", JM.parse_message({"jsonrpc": "2.0", "method": "n"}).model_dump(exclude_none=True)]
    for specific in ("JSONRPCRequest", "JSONRPCResponse", "JSONRPCError", "JSONRPCNotification"):
        cls = getattr(JM, specific)
        for i, rid in enumerate(ids):
            wire = {"jsonrpc": "2.0", "method": "m"} if specific == "JSONRPCNotification" else (
                {"jsonrpc": "2.0", "id": rid, "method": "m"} if specific == "JSONRPCRequest" else (
                    {"jsonrpc": "2.0", "id": rid, "result": [1, None]} if specific == "JSONRPCResponse" else {"jsonrpc": "2.0", "id": rid, "error": {"code": 1, "message": "m"}}))
            tag = "typed-envelope|%s|%d" % (specific, i)
            try:
                m = cls.model_validate(wire)
                d = m.model_dump(exclude_none=True)
                res[tag] = ["accepted", type(d.get("id")).__name__, d]
            except Exception:
                res[tag] = ["rejected"]
    # invariants
    R = MODELS["protocol.messages.roots.send_messages.Root"]
    C = MODELS["protocol.messages.completions.send_messages.CompletionResult"]
    for u in ("file:///x", "http://x", "", "FILE://x"):
        try:
            R(uri=u)
            res["invariant|root|" + u] = ["accepted"]
        except Exception:
            res["invariant|root|" + u] = ["rejected"]
    for n in (0, 100, 101):
        try:
            C(values=["v"] * n)
            res["invariant|completion|%d" % n] = ["accepted"]
        except Exception:
            res["invariant|completion|%d" % n] = ["rejected"]
    return res


ALIAS_WIRE_NAMES[:] = _alias_wire_names()


# ------------------------------------------------------------------ size / count dimension
from harness import sizes as _sizes  # noqa: E402

_sizes.size_cases(70000, extra=_sizes.ENV_SIZES)
_sizes.size_cases(5000, extra=_sizes.ENV_SIZES)
_sizes.size_cases(1 << 21, extra=_sizes.ENV_SIZES)
for _l in (32, 62, 110, 410):
    _sizes.size_cases(_l)


def has_list(key):
    """does the model (or a model it contains at the top level) have a list member"""
    cls, shape, counts, types = build(key, "full", 0)

    def walk(x):
        if isinstance(x, list):
            return True
        if isinstance(x, dict):
            return any(walk(v) for v in x.values())
        return False

    return walk(shape)


def lossless_big(key, k, mode, pat, lim):
    """(0) every string leaf has c-1, c, c+1 characters; (1) the outermost lists have c-1, c, c+1 items"""
    if mode == 0:
        n = _sizes.pick(_sizes.size_cases(lim or 70000, extra=_sizes.ENV_SIZES), k)
        return lossless(key, "req" if pat >= 10 else "full", 0, _sizes.long_text(n, pat % 10), "b", 7, True)
    n = _sizes.pick(_sizes.size_cases(lim), k)
    return lossless(key, "list%d" % n, 0, "a", "b", 7, True)


for _c in list(ALL_MODELS.values()):
    try:
        fields_of(_c)  # warm the introspection cache at import time
    except Exception:
        pass
