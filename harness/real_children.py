"""Native validation of the shutdown against REAL child processes (not a solver step): each run leaves no
running child and returns within the two grace periods plus slack."""
import json
import os
import signal
import sys
import time

import anyio

CHILD_OK = "import sys\nfor l in sys.stdin: pass\n"
CHILD_IGN = "import signal,sys,time\nsignal.signal(signal.SIGTERM, signal.SIG_IGN)\nsys.stdout.write('{}\\n'); sys.stdout.flush()\nwhile True: time.sleep(1)\n"
CHILD_EARLY = "import sys\nsys.exit(0)\n"


def state(pid):
    try:
        os.kill(pid, 0)
    except ProcessLookupError:
        return None
    try:
        return open(f"/proc/{pid}/stat").read().split()[2]
    except FileNotFoundError:
        return None


async def run(child, mode, M, P):
    pid = {}
    orig = M.anyio.open_process

    async def spy(*a, **k):
        p = await orig(*a, **k)
        pid["p"] = p.pid
        return p

    M.anyio.open_process = spy
    t0 = time.time()
    try:
        params = P.StdioParameters(command=sys.executable, args=["-c", child])
        if mode == "normal":
            async with M.stdio_client(params):
                await anyio.sleep(0.2)
        elif mode == "exception":
            try:
                async with M.stdio_client(params):
                    await anyio.sleep(0.2)
                    raise KeyError("body")
            except KeyError:
                pass
        else:
            with anyio.move_on_after(0.2):
                async with M.stdio_client(params):
                    await anyio.sleep(30)
    finally:
        M.anyio.open_process = orig
    dt = time.time() - t0
    await anyio.sleep(0.1)
    st = state(pid["p"])
    if st is not None:
        try:
            os.kill(pid["p"], signal.SIGKILL)
        except ProcessLookupError:
            pass
    return dt, st


async def main():
    import logging

    logging.disable(logging.CRITICAL)
    import chuk_mcp.transports.stdio.stdio_client  # noqa

    M = sys.modules["chuk_mcp.transports.stdio.stdio_client"]
    P = sys.modules["chuk_mcp.transports.stdio.parameters"]
    details, violations = [], []
    for cname, child in (("well-behaved", CHILD_OK), ("ignores-SIGTERM", CHILD_IGN), ("exits-early", CHILD_EARLY)):
        for mode in ("normal", "exception", "cancellation"):
            dt, st = await run(child, mode, M, P)
            case = f"{cname}/{mode}"
            details.append({"case": case, "seconds": round(dt, 2), "child_state_after": st})
            if st is not None:
                violations.append({"case": case, "reason": f"child-still-present-after-exit:state-{st}"})
            if dt > 3.0:
                violations.append({"case": case, "reason": "shutdown-not-bounded"})
    print("REALCHILD " + json.dumps({"runs": len(details), "details": details, "violations": violations}))


if __name__ == "__main__":
    anyio.run(main)
