"""Native validation of the shutdown against REAL child processes (not a solver step): each run leaves no
running child and returns within the two grace periods plus slack."""
import json
import os
import signal
import sys
import time

import anyio

CHILD_OK = "import sys\nfor l in sys.stdin: pass\n"
CHILD_IGN = "import signal,sys,time\nsignal.signal(signal.SIGTERM, signal.SIG_IGN)\nsys.stdout.write('{}\\n'); sys.stdout.flush()\nwhile True: time.sleep(1)\n"
CHILD_EARLY = "import sys\nsys.exit(0)\n"
CHILD_NOREAD = "import sys,time\nsys.stdout.write('{}\\n'); sys.stdout.flush()\nwhile True: time.sleep(1)\n"  # alive, never reads its stdin


def state(pid):
    try:
        os.kill(pid, 0)
    except ProcessLookupError:
        return None
    try:
        return open(f"/proc/{pid}/stat").read().split()[2]
    except FileNotFoundError:
        return None


CURRENT = {"case": None, "pid": None, "details": [], "violations": []}


def _watchdog(signum, frame):
    """a shutdown that never returns cannot be interrupted from inside (that is the failure): report and leave"""
    CURRENT["violations"].append({"case": CURRENT["case"], "reason": "shutdown-not-bounded:still-running-after-20s"})
    if CURRENT["pid"]:
        try:
            os.kill(CURRENT["pid"], signal.SIGKILL)
        except ProcessLookupError:
            pass
    print("REALCHILD " + json.dumps({"runs": len(CURRENT["details"]) + 1, "details": CURRENT["details"], "violations": CURRENT["violations"]}))
    sys.stdout.flush()
    os._exit(0)


async def run(child, mode, M, P, big=0):
    pid = {}
    orig = M.anyio.open_process

    async def spy(*a, **k):
        p = await orig(*a, **k)
        pid["p"] = p.pid
        CURRENT["pid"] = p.pid
        return p

    async def body(streams, secs):
        if big:
            # a request of `big` bytes is in flight towards a child that does not read: the writer task waits on the pipe
            await streams[1].send({"jsonrpc": "2.0", "id": 1, "method": "tools/call", "params": {"blob": "x" * big}})
        await anyio.sleep(secs)

    M.anyio.open_process = spy
    t0 = time.time()
    try:
        params = P.StdioParameters(command=sys.executable, args=["-c", child])
        if mode == "normal":
            async with M.stdio_client(params) as streams:
                await body(streams, 0.2)
        elif mode == "exception":
            try:
                async with M.stdio_client(params) as streams:
                    await body(streams, 0.2)
                    raise KeyError("body")
            except KeyError:
                pass
        else:
            with anyio.move_on_after(0.3):
                async with M.stdio_client(params) as streams:
                    await body(streams, 30)
    finally:
        M.anyio.open_process = orig
    dt = time.time() - t0
    await anyio.sleep(0.1)
    st = state(pid["p"])
    if st is not None:
        try:
            os.kill(pid["p"], signal.SIGKILL)
        except ProcessLookupError:
            pass
    return dt, st


async def main():
    import logging

    logging.disable(logging.CRITICAL)
    import chuk_mcp.transports.stdio.stdio_client  # noqa

    M = sys.modules["chuk_mcp.transports.stdio.stdio_client"]
    P = sys.modules["chuk_mcp.transports.stdio.parameters"]
    details, violations = CURRENT["details"], CURRENT["violations"]
    signal.signal(signal.SIGALRM, _watchdog)
    cases = [(cname, child, mode, 0) for cname, child in (("well-behaved", CHILD_OK), ("ignores-SIGTERM", CHILD_IGN), ("exits-early", CHILD_EARLY)) for mode in ("normal", "exception", "cancellation")]
    # a child that never reads, with a message in flight that is smaller / larger than the pipe can take
    cases += [("never-reads+%dB-in-flight" % b, CHILD_NOREAD, mode, b) for b in (200, 5000, 1 << 20) for mode in ("normal", "cancellation")]
    for cname, child, mode, big in cases:
            case = f"{cname}/{mode}"
            CURRENT["case"] = case
            signal.alarm(20)
            dt, st = await run(child, mode, M, P, big)
            signal.alarm(0)
            details.append({"case": case, "seconds": round(dt, 2), "child_state_after": st})
            if st is not None:
                violations.append({"case": case, "reason": f"child-still-present-after-exit:state-{st}"})
            if dt > 3.0:
                violations.append({"case": case, "reason": "shutdown-not-bounded"})
    print("REALCHILD " + json.dumps({"runs": len(details), "details": details, "violations": violations}))


if __name__ == "__main__":
    anyio.run(main)
