"""Fakes for the stdio transport: process, pipes and the client's internal streams."""
from __future__ import annotations

import importlib

from symcheck.env import HarnessError, need

STDIO = importlib.import_module("chuk_mcp.transports.stdio.stdio_client")
SPARAMS = importlib.import_module("chuk_mcp.transports.stdio.parameters")


class FakeStdin:
    def __init__(self):
        self.chunks = []
        self.closed = 0
        self.fail = False

    async def send(self, data):
        if self.fail:
            raise BrokenPipeError("stdin closed")
        self.chunks.append(data)

    async def aclose(self):
        self.closed += 1


class FakeStdout:
    def __init__(self, chunks):
        self.chunks = chunks

    def __aiter__(self):
        self._i = 0
        return self

    async def __anext__(self):
        if self._i >= len(self.chunks):
            raise StopAsyncIteration
        c = self.chunks[self._i]
        self._i += 1
        return c


class FakeProcess:
    def __init__(self, chunks=()):
        self.stdin = FakeStdin()
        self.stdout = FakeStdout(list(chunks))
        self.pid = 4242
        self.returncode = None


class Rec:
    """records items sent on one of the client's internal memory streams"""

    def __init__(self):
        self.items = []

    def send_nowait(self, item):
        self.items.append(item)

    async def send(self, item):
        self.items.append(item)

    async def aclose(self):
        pass


def make_client(chunks=()):
    c = STDIO.StdioClient(SPARAMS.StdioParameters(command="x", args=[]))
    need(c, "_notify_send", "_incoming_send", "_outgoing_send", "_outgoing_recv", "_streams_initialized", "process", "tg", "batch_processor",
         "_stdout_reader", "_stdin_writer", "_process_message_data", "_route_message", "_pending")
    c._notify_send = Rec()
    c._incoming_send = Rec()
    c._outgoing_send = Rec()
    c._streams_initialized = True
    c.process = FakeProcess(chunks)
    return c
