"""Fakes for the stdio transport: process, pipes and the client's internal streams."""
from __future__ import annotations

import importlib

from symcheck.env import HarnessError, need

STDIO = importlib.import_module("chuk_mcp.transports.stdio.stdio_client")
SPARAMS = importlib.import_module("chuk_mcp.transports.stdio.parameters")


class FakeStdin:
    def __init__(self):
        self.chunks = []
        self.closed = 0
        self.fail = False

    async def send(self, data):
        if self.fail:
            raise BrokenPipeError("stdin closed")
        self.chunks.append(data)

    async def aclose(self):
        self.closed += 1


class FakeStdout:
    def __init__(self, chunks):
        self.chunks = chunks

    def __aiter__(self):
        self._i = 0
        return self

    async def __anext__(self):
        if self._i >= len(self.chunks):
            raise StopAsyncIteration
        c = self.chunks[self._i]
        self._i += 1
        return c


class FakeProcess:
    def __init__(self, chunks=()):
        self.stdin = FakeStdin()
        self.stdout = FakeStdout(list(chunks))
        self.pid = 4242
        self.returncode = None


class Rec:
    """records items sent on one of the client's internal memory streams"""

    def __init__(self):
        self.items = []

    def send_nowait(self, item):
        self.items.append(item)

    async def send(self, item):
        self.items.append(item)

    async def aclose(self):
        pass


class BoundedRec:
    """the client's read stream with its capacity: `send` suspends the reader while the buffer is full (the consumer
    then runs and takes what is buffered), `send_nowait` raises WouldBlock instead; the consumer also runs whenever
    the reader waits for the next chunk.  One legitimate schedule of a consumer that is slower than the reader."""

    def __init__(self, cap):
        self.cap, self.buf, self.taken = cap, [], []

    def drain(self):
        self.taken += self.buf
        self.buf = []

    def send_nowait(self, item):
        if len(self.buf) >= self.cap:
            import anyio as _anyio

            raise _anyio.WouldBlock()
        self.buf.append(item)

    async def send(self, item):
        if len(self.buf) >= self.cap:
            self.drain()
        self.buf.append(item)

    async def aclose(self):
        pass

    @property
    def items(self):
        return self.taken + self.buf


def make_client(chunks=()):
    c = STDIO.StdioClient(SPARAMS.StdioParameters(command="x", args=[]))
    need(c, "_notify_send", "_incoming_send", "_outgoing_send", "_outgoing_recv", "_streams_initialized", "process", "tg", "batch_processor",
         "_stdout_reader", "_stdin_writer", "_process_message_data", "_route_message", "_pending")
    c._notify_send = Rec()
    c._incoming_send = Rec()
    c._outgoing_send = Rec()
    c._streams_initialized = True
    c.process = FakeProcess(chunks)
    return c
