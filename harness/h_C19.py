"""C19 - server session bookkeeping behaves like a map from unique ids to records.
Inductive step: arbitrary valid pre-state, one operation, post-state == dict model."""
import importlib
import uuid

from symcheck.env import drive, dump, same_json, HarnessError

MEM = importlib.import_module("chuk_mcp.server.session.memory")
BASE = importlib.import_module("chuk_mcp.server.session.base")
PH = importlib.import_module("chuk_mcp.server.protocol_handler")
JM = importlib.import_module("chuk_mcp.protocol.messages.json_rpc_message")
INFO = importlib.import_module("chuk_mcp.protocol.types.info")
CAPS = importlib.import_module("chuk_mcp.protocol.types.capabilities")


class _Clock:
    """time.time() stub: arbitrary non-decreasing instants (integers)"""

    def __init__(self):
        self.vals, self.i = [0], 0

    def set(self, vals):
        self.vals, self.i = vals, 0

    def time(self):
        v = self.vals[self.i] if self.i < len(self.vals) else self.vals[-1]
        self.i += 1
        return v


CLOCK = _Clock()
MEM.time = CLOCK  # the module calls time.time()

_ctr = [0]


def _uuid4():
    _ctr[0] += 1
    return uuid.UUID(int=_ctr[0])


uuid.uuid4 = _uuid4
BASE.uuid.uuid4 = _uuid4

IDS = ["sess-a", "sess-b", "sess-c"]
MISSING = "sess-missing"

SERVER_INFO = INFO.ServerInfo(name="srv", version="1.0")
SERVER_CAPS = CAPS.ServerCapabilities()


def _pre(mgr, n, created, last):
    for i in range(n):
        mgr.sessions[IDS[i]] = BASE.SessionInfo(
            session_id=IDS[i], client_info={"n": i}, protocol_version="2025-03-26",
            created_at=created[i], last_activity=last[i], metadata={},
        )


def _snapshot(mgr):
    return {k: (v.session_id, v.created_at, v.last_activity, v.client_info, v.protocol_version) for k, v in mgr.sessions.items()}


def _target(n, t):
    # t in [0, n]: existing index or the missing id (if-chain: R10)
    if t == 0 and n > 0:
        return IDS[0]
    if t == 1 and n > 1:
        return IDS[1]
    if t == 2 and n > 2:
        return IDS[2]
    return MISSING


def _invariant(mgr):
    for k, v in mgr.sessions.items():
        if v.session_id != k:
            return "key-differs-from-record-id"
        if v.last_activity < v.created_at:
            return "last-activity-before-creation"
    return None


def _same(snap, model):
    if len(snap) != len(model):
        return False
    for k in model:
        if k not in snap:
            return False
        a, b = snap[k], model[k]
        if not (a[0] == b[0] and a[1] == b[1] and a[2] == b[2] and a[3] == b[3] and a[4] == b[4]):
            return False
    return True


def step(op, n, created, last, now, d1, t, max_age, tid=None):
    """one operation from an arbitrary valid pre-state of n sessions"""
    _ctr[0] = 0
    mgr = MEM.InMemorySessionManager()
    _pre(mgr, n, created, last)
    model = dict(_snapshot(mgr))
    CLOCK.set([now, now + d1])
    tid = _target(n, t) if tid is None else tid
    if op == "create":
        sid = mgr.create_session({"name": "cli"}, "2024-11-05")
        if not isinstance(sid, str) or not sid:
            return "create:id-not-a-string"
        if sid in model:
            return "create:id-not-fresh"
        snap = _snapshot(mgr)
        if sid not in snap:
            return "create:session-not-stored"
        rec = snap.pop(sid)
        if rec[0] != sid or rec[3] != {"name": "cli"} or rec[4] != "2024-11-05":
            return "create:record-wrong"
        if not (now <= rec[1] <= rec[2] <= now + d1):
            return "create:timestamps"
        if not _same(snap, model):
            return "create:other-sessions-changed"
    elif op == "get":
        r = mgr.get_session(tid)
        if tid in model:
            if r is None or r.session_id != tid:
                return "get:wrong-record"
        elif r is not None:
            return "get:found-missing"
        if not _same(_snapshot(mgr), model):
            return "get:state-changed"
    elif op == "update":
        r = mgr.update_activity(tid)
        if r is not (tid in model):
            return "update:return-value"
        if tid in model:
            m = model[tid]
            model[tid] = (m[0], m[1], now, m[3], m[4])
        if not _same(_snapshot(mgr), model):
            return "update:state"
    elif op == "delete":
        r = mgr.delete_session(tid)
        if r is not (tid in model):
            return "delete:return-value"
        model.pop(tid, None)
        if not _same(_snapshot(mgr), model):
            return "delete:state"
    elif op == "cleanup":
        r = mgr.cleanup_expired(max_age)
        exp = {k: v for k, v in model.items() if not (now - v[2] > max_age)}
        if r != len(model) - len(exp):
            return "cleanup:count"
        if not _same(_snapshot(mgr), exp):
            return "cleanup:removed-wrong-sessions"
    elif op == "list":
        lst = mgr.list_sessions()
        if set(lst) != set(model):
            return "list:keys"
        for k in lst:
            if lst[k].session_id != k:
                return "list:records"
        lst["intruder"] = None
        if n > 0:
            del lst[next(iter(model))]
        if not _same(_snapshot(mgr), model):
            return "list:mutation-leaked-into-store"
    elif op == "clear":
        r = mgr.clear_all_sessions()
        if r != len(model) or len(mgr.sessions) != 0:
            return "clear"
    elif op == "count":
        if mgr.get_session_count() != len(model):
            return "count"
        if not _same(_snapshot(mgr), model):
            return "count:state-changed"
    else:
        raise HarnessError(op)
    inv = _invariant(mgr)
    if inv:
        return "invariant:" + inv
    return "ok"


def pick_req_id(i):
    if i == 0:
        return 1
    if i == 1:
        return 0
    if i == 2:
        return "init-1"
    if i == 3:
        return ""
    return -5


def pick_client_info(i):
    """shapes of clientInfo a client may send: the session records it as sent"""
    if i == 0:
        return {"name": "cli", "version": "9"}
    if i == 1:
        return {"name": "cli", "version": "9", "title": None}
    if i == 2:
        return {"name": "", "version": "0"}
    if i == 3:
        return {"name": "cli", "version": "9", "x": {"a": None, "b": [], "c": {}}, "n": 0, "f": False, "e": ""}
    if i == 4:
        return {"name": "100% {0} $x", "version": "1.0\n", "_meta": {"k": None}}
    return {}


CI = [0]


def handler_step_ci(op, n, created, last, now, d1, t, idsel, ci):
    CI[0] = ci
    try:
        return handler_step(op, n, created, last, now, d1, t, idsel)
    finally:
        CI[0] = 0


def handler_step(op, n, created, last, now, d1, t, idsel=0, tid=None):
    """initialize / request-with-session-id through the protocol handler"""
    _ctr[0] = 0
    h = PH.ProtocolHandler(SERVER_INFO, SERVER_CAPS)
    mgr = h.session_manager
    _pre(mgr, n, created, last)
    model = dict(_snapshot(mgr))
    CLOCK.set([now, now + d1])
    tid = _target(n, t) if tid is None else tid
    if op == "initialize" or op == "initialize_sid":
        msg = JM.JSONRPCMessage(jsonrpc="2.0", id=pick_req_id(idsel), method="initialize",
                                params={"protocolVersion": "2025-03-26", "clientInfo": pick_client_info(CI[0]), "capabilities": {}})
        # a (re-)initialize may arrive on a connection that already carries a session id - live or not
        resp, sid = drive(h.handle_message(msg, tid if op == "initialize_sid" else None))
        if resp is None or sid is None:
            return "initialize:no-response-or-session"
        if op == "initialize_sid" and tid in model:
            m = model[tid]
            model[tid] = (m[0], m[1], now, m[3], m[4])  # dispatch updates the activity of the presented session, nothing else
        snap = _snapshot(mgr)
        if sid in model or sid not in snap:
            return "initialize:session-id"
        rec = snap.pop(sid)
        if not _same(snap, model):
            return "initialize:other-sessions-changed-or-more-than-one-created"
        d = dump(resp)
        ans = (d.get("result") or {}).get("protocolVersion")
        if rec[4] != ans:
            return "initialize:session-version-differs-from-answer"
        if not same_json(rec[3], pick_client_info(CI[0])):
            return "initialize:client-info-not-recorded"
    elif op in ("request", "request_unknown", "notification_unknown", "request_failing"):
        if op == "request":
            msg = JM.JSONRPCMessage(jsonrpc="2.0", id=2, method="ping")
        elif op == "request_unknown":
            msg = JM.JSONRPCMessage(jsonrpc="2.0", id=2, method="tools/list")  # not registered on a bare ProtocolHandler
        elif op == "request_failing":
            async def failing(message, session_id):
                raise ValueError("handler failed")

            h.register_method("x/fail", failing)
            msg = JM.JSONRPCMessage(jsonrpc="2.0", id=2, method="x/fail")
        else:
            msg = JM.JSONRPCMessage(jsonrpc="2.0", method="notifications/cancelled", params={"requestId": 1})
        resp, sid = drive(h.handle_message(msg, tid))
        if resp is None and op != "notification_unknown":
            return "request:no-response"
        if tid in model:
            m = model[tid]
            model[tid] = (m[0], m[1], now, m[3], m[4])
        if not _same(_snapshot(mgr), model):
            return "request:session-state"
    else:
        raise HarnessError(op)
    inv = _invariant(mgr)
    if inv:
        return "invariant:" + inv
    return "ok"


def unique_ids(k):
    """k successive creations with a fresh-uuid source give pairwise distinct ids"""
    _ctr[0] = 0
    mgr = MEM.InMemorySessionManager()
    CLOCK.set([0])
    ids = [mgr.create_session({}, "2025-06-18") for _ in range(k)]
    if len(set(ids)) != k or mgr.get_session_count() != k:
        return "ids-not-unique"
    return "ok"


# ------------------------------------------------------------------ count dimension: stores of c-1, c, c+1 sessions
from harness import sizes as _sizes  # noqa: E402


NOW = 200000


def _many_state(k, tsel, lim):
    global IDS
    n = _sizes.pick(_sizes.size_cases(lim), k)
    IDS = ["sess-%05d" % i for i in range(max(n, 3))]
    # idle times straddle the constants of the source that look like durations (3600 at the pinned commit): some
    # sessions are older than any default expiry, none is touched by an operation that does not name it
    ages = [0, 10]
    for c in _sizes.source_ints():
        if 60 <= c <= 100000:
            ages += [c - 1, c, c + 1]
    ages.append(90000)
    last = [NOW - ages[i % len(ages)] for i in range(n)]
    created = [max(x - 5, 0) for x in last]
    if n == 0 or tsel == 3:
        tid = MISSING
    elif tsel == 0:
        tid = IDS[0]
    elif tsel == 1:
        tid = IDS[n // 2]
    else:
        tid = IDS[n - 1]
    return n, created, last, tid


def step_many(op, k, tsel, agesel, lim=1100):
    """one store operation from a store of n sessions (n = c-1, c, c+1 for the integer constants c of the source):
    the operation touches one session (first / middle / last / missing) or sweeps all of them"""
    n, created, last, tid = _many_state(k, tsel, lim)
    max_age = (5, 3600, 10 ** 6)[agesel] if 0 <= agesel <= 2 else -1
    saved = list(IDS)
    try:
        return step(op, n, created, last, NOW, 1, 0, max_age, tid=tid)
    finally:
        IDS[:] = saved[:3]


def handler_many(op, k, tsel, idsel, lim=1100):
    n, created, last, tid = _many_state(k, tsel, lim)
    saved = list(IDS)
    try:
        return handler_step(op, n, created, last, NOW, 1, 0, idsel, tid=tid)
    finally:
        IDS[:] = saved[:3]
