"""C12 - SSE transport: live-or-raise setup, exactly-once delivery, chunk-independent parsing.

The module-global `asyncio` of transports/sse/transport.py is replaced by a shim that sequentialises the
schedule: tasks run eagerly until they park, and the only interleaving choices are the explicit ones of
the obligations (when an event-stream chunk is delivered relative to a POST)."""
import asyncio as _real_asyncio
import importlib
import json as _json

from symcheck.env import dump, same_json, HarnessError, need
from harness.stdio_fake import Rec
from harness.h_C02 import grammar
import httpx as _httpx

SSE = importlib.import_module("chuk_mcp.transports.sse.transport")
SPAR = importlib.import_module("chuk_mcp.transports.sse.parameters")
SCLI = importlib.import_module("chuk_mcp.transports.sse.sse_client")


# ------------------------------------------------------------------ cooperative mini runtime
class _Park:
    """awaitable on which a task parks until the world resumes it"""

    def __init__(self, what):
        self.what = what

    def __await__(self):
        x = yield self
        return x


class STask:
    def __init__(self, coro):
        self.coro = coro
        self.finished = False
        self.result = None
        self.exc = None
        self.parked = None
        self._step()

    def _step(self, value=None, exc=None):
        try:
            if exc is not None:
                p = self.coro.throw(exc)
            else:
                p = self.coro.send(value)
            if not isinstance(p, _Park):
                raise HarnessError("task yielded something unexpected")
            self.parked = p
        except StopIteration as e:
            self.finished, self.result, self.parked = True, e.value, None
        except _real_asyncio.CancelledError as e:
            self.finished, self.exc, self.parked = True, e, None
        except HarnessError:
            raise
        except Exception as e:
            self.finished, self.exc, self.parked = True, e, None

    def resume(self, value=None):
        if not self.finished:
            self._step(value)

    def done(self):
        return self.finished

    def cancel(self):
        if not self.finished:
            self._step(exc=_real_asyncio.CancelledError())
        return True

    def __await__(self):
        if not self.finished:
            raise HarnessError("awaiting an unfinished task is not planned by the harness")
        if self.exc is not None:
            raise self.exc
        return self.result
        yield  # pragma: no cover


class SEvent:
    def __init__(self):
        self.flag = False

    def set(self):
        self.flag = True

    def is_set(self):
        return self.flag

    async def wait(self):
        while not self.flag:
            await _Park("event")
        return True


class SFuture:
    def __init__(self):
        self._done, self._result, self._cancelled = False, None, False

    def done(self):
        return self._done

    def cancel(self):
        if not self._done:
            self._done, self._cancelled = True, True
        return True

    def cancelled(self):
        return self._cancelled

    def set_result(self, r):
        if self._done:
            raise HarnessError("future resolved twice")
        self._done, self._result = True, r

    def __await__(self):
        while not self._done:
            yield from _Park("future").__await__()
        if self._cancelled:
            raise _real_asyncio.CancelledError()
        return self._result


class SLock:
    async def __aenter__(self):
        return self

    async def __aexit__(self, *a):
        return False


class World:
    """external events: chunks of the event stream not yet delivered, and how the stream ends"""

    def __init__(self):
        self.chunks = []
        self.end = "silent"  # "end" | "silent"
        self.sse_task = None
        self.posts = []
        self.plan = []
        self.clients_closed = 0
        self.clients_open = 0
        self.stream_closed = 0

    def deliver_next(self):
        """hand the next chunk (or the end of stream) to the parked stream reader; False if nothing is left"""
        t = self.sse_task
        if t is None or t.finished or t.parked is None or t.parked.what != "chunk":
            return False
        if self.chunks:
            t.resume(("chunk", self.chunks.pop(0)))
            return True
        if self.end == "end":
            self.end = "ended"
            t.resume(("end", None))
            return True
        return False


W = World()


class AsyncioShim:
    Event, Future, Lock = SEvent, SFuture, SLock
    TimeoutError = TimeoutError
    CancelledError = _real_asyncio.CancelledError
    Task = STask

    @staticmethod
    def create_task(coro):
        t = STask(coro)
        return t

    @staticmethod
    async def wait_for(aw, timeout=None):
        """completes if `aw` can complete with the external events that are still to come, else times out"""
        if hasattr(aw, "send"):
            inner = aw
        else:
            async def _w():
                return await aw
            inner = _w()
        try:
            p = inner.send(None)
        except StopIteration as e:
            return e.value
        while True:
            if not isinstance(p, _Park):
                raise HarnessError("unexpected yield in wait_for")
            if not W.deliver_next():
                inner.close()
                raise TimeoutError()
            try:
                p = inner.send(None)
            except StopIteration as e:
                return e.value


SSE.asyncio = AsyncioShim


# ------------------------------------------------------------------ fake httpx for the SSE transport
class _SSEResponse:
    """httpx streaming response: the world feeds BYTES; aiter_text() decodes them incrementally (as httpx does),
    aiter_bytes()/aiter_raw() hand them on unchanged"""

    def __init__(self, status):
        self.status_code = status
        self.headers = {"content-type": "text/event-stream"}
        self.encoding = "utf-8"

    def _iter(self, as_text):
        from harness.h_C05 import IncDecoder

        dec = IncDecoder(errors="replace")

        class It:
            def __aiter__(s):
                return s

            async def __anext__(s):
                kind, val = await _Park("chunk")
                if kind == "end":
                    raise StopAsyncIteration
                if isinstance(val, str):
                    return val if as_text else val.encode("utf-8")
                return dec.decode(val) if as_text else val

        return It()

    def aiter_text(self, chunk_size=None):
        return self._iter(True)

    def aiter_bytes(self, chunk_size=None):
        return self._iter(False)

    def aiter_raw(self, chunk_size=None):
        return self._iter(False)

    def aiter_lines(self):
        raise HarnessError("aiter_lines is not modelled by the fake response")


class _StreamCtx:
    def __init__(self, mode, status):
        self.mode, self.status = mode, status

    async def __aenter__(self):
        if self.mode == "refused":
            raise _httpx.ConnectError("connection refused")
        return _SSEResponse(self.status)

    async def __aexit__(self, *a):
        W.stream_closed += 1
        return False


class _PostResponse:
    def __init__(self, status, body):
        self.status_code, self.content = status, body

    @property
    def text(self):
        return self.content.decode("utf-8", "replace")

    def json(self):
        return _json.loads(self.content)


class FakeClient:
    connect_mode, connect_status = "ok", 200

    def __init__(self, *a, **k):
        W.clients_open += 1

    def stream(self, method, url, headers=None):
        return _StreamCtx(FakeClient.connect_mode, FakeClient.connect_status)

    async def post(self, url, json=None, headers=None, **kw):
        i = len(W.posts)
        W.posts.append({"url": url, "json": json})
        if i >= len(W.plan):
            raise HarnessError("more POSTs than planned")
        step = W.plan[i]
        for _ in range(step.get("deliver_during_post", 0)):
            W.deliver_next()
        if step.get("raise") is not None:
            raise step["raise"]
        return _PostResponse(step["status"], step.get("body", b""))

    async def aclose(self):
        W.clients_closed += 1


class _FakeHttpx:
    AsyncClient = FakeClient
    Timeout = staticmethod(lambda *a, **k: None)

    def __getattr__(self, n):
        return getattr(_httpx, n)


SSE.httpx = _FakeHttpx()


class _FakeRecv:
    """receive side of a memory object stream: iterating parks (nothing is ever written in these obligations)"""

    def __aiter__(self):
        return self

    async def __anext__(self):
        await _Park("outgoing")
        raise StopAsyncIteration

    async def aclose(self):
        pass


def _fake_streams(n=0):
    return Rec(), _FakeRecv()


import anyio as _anyio  # noqa: E402

_anyio.create_memory_object_stream = _fake_streams


def _drive_top(coro):
    """run the top-level coroutine; it must not park (every wait goes through the shim's wait_for)"""
    try:
        p = coro.send(None)
    except StopIteration as e:
        return e.value
    coro.close()
    raise HarnessError("top-level coroutine parked outside wait_for: %r" % getattr(p, "what", p))


def _reset(chunks, end):
    global W
    W.__init__()
    W.chunks, W.end = list(chunks), end


def _transport(timeout=5.0):
    t = SSE.SSETransport(SPAR.SSEParameters(url="http://srv", timeout=timeout))
    need(t, "_incoming_send", "_message_url", "_send_client", "_sse_response", "_pending_requests", "_process_sse_stream",
         "_handle_endpoint_event", "_handle_message_event", "_send_message_via_http", "_handle_sse_connection", "_cleanup")
    need(SSE, "httpx", "json", "asyncio")
    return t


# ------------------------------------------------------------------ (a) chunk independence of the event-stream parser
RESP1 = '{"jsonrpc":"2.0","id":"a","result":{"t":"é€ \\n x"}}'
NOTE1 = '{"jsonrpc":"2.0","method":"notifications/message","params":{"d":"ü"}}'


def stream_text(kinds, crlf):
    nl = "\r\n" if crlf else "\n"
    out = ""
    for k in kinds:
        if k == "endpoint":
            out += "event: endpoint" + nl + "data: /messages/?session_id=abc" + nl + nl
        elif k == "resp":
            out += "event: message" + nl + "data: " + RESP1 + nl + nl
        elif k == "note":
            out += "event: message" + nl + "data: " + NOTE1 + nl + nl
        elif k == "bare":
            out += "data: " + NOTE1 + nl + nl
        elif k == "keepalive":
            out += "event: keepalive" + nl + "data: {}" + nl + nl
        elif k == "comment":
            out += ": ping" + nl + nl
        else:
            raise HarnessError(k)
    return out


def _parse_with_chunks(chunks):
    _reset(chunks, "end")
    t = _transport()
    calls = []

    async def ep(data):
        calls.append(("endpoint", data))
        t._message_url = "set"

    async def msg(data):
        calls.append(("message", data))

    t._handle_endpoint_event, t._handle_message_event = ep, msg
    t._sse_response = _SSEResponse(200)
    W.sse_task = STask(t._process_sse_stream())
    guard = 0
    while W.deliver_next():
        guard += 1
        if guard > 2000:
            raise HarnessError("runaway")
    if not W.sse_task.finished:
        return None, "stream-reader-did-not-finish"
    if W.sse_task.exc is not None:
        return None, "stream-reader-raised:" + type(W.sse_task.exc).__name__
    return calls, "ok"


def text_len(kinds, crlf):
    return len(stream_text(kinds, crlf).encode("utf-8"))


def chunking(kinds, crlf, i, d):
    """chunks [t[:i], t[i:i+d], t[i+d:]] (d = 0: two chunks) vs the whole text: same handler invocations, and the
    canonical stream yields each event exactly once, in order"""
    text = stream_text(kinds, crlf).encode("utf-8")  # the wire carries bytes: cuts may fall inside a multi-byte character
    if not (0 <= i and i + d <= len(text)):
        return "ok"
    whole, r = _parse_with_chunks([text])
    if r != "ok":
        return r
    parts = [text[:i], text[i:i + d], text[i + d:]] if d else [text[:i], text[i:]]
    cut, r = _parse_with_chunks(parts)
    if r != "ok":
        return r
    if cut != whole:
        return "chunking-changed-delivery"
    exp = []
    for k in kinds:
        if k == "endpoint":
            exp.append(("endpoint", "/messages/?session_id=abc"))
        elif k == "resp":
            exp.append(("message", RESP1))
        elif k in ("note", "bare"):
            exp.append(("message", NOTE1))
    if whole != exp:
        return "events-not-delivered-exactly-once-in-order"
    return "ok"


from harness import sizes as _sizes  # noqa: E402

_sizes.size_cases(70000, extra=_sizes.ENV_SIZES)
_sizes.size_cases(140000, extra=_sizes.ENV_SIZES)


def chunking_long(k, pat, cutsel, lim=70000):
    """size dimension: one event whose data line carries a string of c-1, c, c+1 characters (c: integer constants of
    the source and environment sizes), followed by a small event; cut (0) three bytes before the end of the long
    line, (1) in its middle, (2) into 8 KiB reads, (3) into 1000-byte reads up to 64 reads then the rest,
    (4) not at all"""
    n = _sizes.pick(_sizes.size_cases(lim, extra=_sizes.ENV_SIZES), k)
    data = '{"jsonrpc":"2.0","method":"notifications/message","params":{"d":"' + _sizes.long_text(n, pat) + '"}}'
    head = ("event: message\ndata: " + data).encode("utf-8")
    text = head + b"\n\n" + ("event: message\ndata: " + NOTE1 + "\n\n").encode("utf-8")
    if cutsel == 0:
        c = max(len(head) - 3, 0)
        parts = [text[:c], text[c:]]
    elif cutsel == 1:
        c = len(head) // 2
        parts = [text[:c], text[c:]]
    elif cutsel == 2:
        parts = [text[a:a + 8192] for a in range(0, len(text), 8192)]
    elif cutsel == 3:
        parts = [text[a:a + 1000] for a in range(0, min(len(text), 64000), 1000)] + ([text[64000:]] if len(text) > 64000 else [])
    else:
        parts = [text]
    got, r = _parse_with_chunks(parts)
    if r != "ok":
        return r
    if got != [("message", data), ("message", NOTE1)]:
        return "long-event-not-delivered-exactly-once-in-order:%d" % len(got)
    return "ok"


def chunking_text(i, cutsel, crlf):
    """content corpus: an event whose JSON payload carries the i-th 'active' text RAW (as ensure_ascii=False
    encoders emit it: U+2028/2029/0085, BOM, form feed ... are legal inside a JSON string), followed by a small
    event; cut as in chunking_long"""
    data = _json.dumps({"jsonrpc": "2.0", "method": "notifications/message", "params": {"d": _sizes.pick_text(i)}}, ensure_ascii=False)
    nl = "\r\n" if crlf else "\n"
    head = ("event: message" + nl + "data: " + data).encode("utf-8")
    text = head + (nl + nl).encode() + ("event: message" + nl + "data: " + NOTE1 + nl + nl).encode("utf-8")
    if cutsel == 0:
        c = max(len(head) - 3, 0)
        parts = [text[:c], text[c:]]
    elif cutsel == 1:
        c = len(head) // 2
        parts = [text[:c], text[c:]]
    elif cutsel == 2:
        parts = [text[a:a + 7] for a in range(0, len(text), 7)]
    else:
        parts = [text]
    got, r = _parse_with_chunks(parts)
    if r != "ok":
        return r
    if got != [("message", data), ("message", NOTE1)]:
        return "event-with-active-text-not-delivered-exactly-once-in-order:%d" % len(got)
    return "ok"


# ------------------------------------------------------------------ (b) live-or-raise
def announce_text(form):
    if form == 0:
        return "event: endpoint\ndata: /messages/?session_id=s1\n\n"
    if form == 1:
        return "data: /messages/?session_id=s1\n\n"  # bare data containing /messages/
    if form == 2:
        return "event: endpoint\ndata: session_id=s1\n\n"  # k=v query form
    if form == 3:
        return "event: endpoint\ndata: http://other/mcp\n\n"  # absolute URL
    if form == 4:
        return "data: /mcp\n\n"
    raise HarnessError("form")


def establish(mode, status, form, pre_noise, via_client):
    """mode: 0 refused, 1 status (symbolic), 2 announces (form), 3 stream ends without announcing, 4 stays silent,
    5 announces only after some other traffic (slow announcement, still before the timeout)"""
    chunks, end = [], "silent"
    FakeClient.connect_mode, FakeClient.connect_status = "ok", 200
    if mode == 0:
        FakeClient.connect_mode = "refused"
    elif mode == 1:
        FakeClient.connect_status = status
        chunks = [announce_text(0)]
    elif mode == 2:
        chunks = [announce_text(form)]
    elif mode == 3:
        chunks, end = [": hello\n\n"], "end"
    elif mode == 4:
        chunks = [": hello\n\n"] if pre_noise else []
    else:
        chunks = [": hello\n\n", "event: keepalive\ndata: {}\n\n", announce_text(form)]
    _reset(chunks, end)
    t = _transport()
    orig_create = AsyncioShim.create_task

    def create(coro):
        task = STask(coro)
        if getattr(coro, "cr_code", None) is not None and coro.cr_code.co_name == "_handle_sse_connection":
            W.sse_task = task
        return task

    AsyncioShim.create_task = staticmethod(create)
    entered, raised = False, None
    try:
        if via_client:
            cm = SCLI.sse_client(SPAR.SSEParameters(url="http://srv", timeout=5.0))
            try:
                _drive_top(cm.__aenter__())
                entered = True
            except HarnessError:
                raise
            except Exception as e:
                raised = e
        else:
            try:
                _drive_top(t.__aenter__())
                entered = True
            except HarnessError:
                raise
            except Exception as e:
                raised = e
    finally:
        AsyncioShim.create_task = staticmethod(orig_create)
    should_live = mode in (2, 5) or (mode == 1 and status == 200)
    if entered:
        if via_client:
            return "ok" if should_live else "entered-without-announced-endpoint"
        if t._message_url is None:
            return "entered-without-announced-endpoint"
        if not should_live:
            return "entered-although-establishment-failed"
        if not t.is_connected():
            return "entered-but-not-connected"
        return "ok"
    if should_live:
        return "raised-although-endpoint-was-announced:" + type(raised).__name__
    # failed establishment must have released what it had opened
    if not via_client and W.clients_closed < W.clients_open:
        return "http-client-leaked-on-failed-enter"
    return "ok"


# ------------------------------------------------------------------ (c) exactly one terminal message per request
def pick_id(i):
    if i == 0:
        return "req-1"
    if i == 1:
        return 5
    if i == 2:
        return 0
    return -7


def event_for(rid, payload):
    d = {"jsonrpc": "2.0", "id": rid}
    d.update(payload)
    return "event: message\ndata: " + _json.dumps(d) + "\n\n"


def request_mode(mode, status, idsel, bodysel, with_noise):
    """mode 0: 200 + body; 1: 202 then the event; 2: the event arrives while the POST is in flight, then 202;
    3: 202 and silence; 4: other status (symbolic) with/without JSON body; 5: post raises"""
    rid = pick_id(idsel)
    resp = {"jsonrpc": "2.0", "id": rid, "result": {"ok": 1}}
    chunks = []
    note = "event: message\ndata: " + NOTE1 + "\n\n"
    plan = {}
    if mode == 0:
        body = _json.dumps(resp).encode() if bodysel == 0 else (b"not json" if bodysel == 1 else b"")
        plan = {"status": 200, "body": body}
        if with_noise:
            chunks = [note]
            plan["deliver_during_post"] = 1
    elif mode == 1:
        plan = {"status": 202}
        chunks = ([note] if with_noise else []) + [event_for(rid, {"result": {"ok": 1}})]
    elif mode == 2:
        chunks = ([note] if with_noise else []) + [event_for(rid, {"result": {"ok": 1}})]
        plan = {"status": 202, "deliver_during_post": len(chunks)}
    elif mode == 3:
        plan = {"status": 202}
        chunks = [note] if with_noise else []
    elif mode == 4:
        body = _json.dumps({"jsonrpc": "2.0", "id": rid, "error": {"code": -32000, "message": "busy"}}).encode() if bodysel == 0 else (b"<html>" if bodysel == 1 else b"")
        plan = {"status": status, "body": body}
    else:
        plan = {"raise": _httpx.ConnectError("boom") if bodysel == 0 else (_httpx.ReadTimeout("slow") if bodysel == 1 else RuntimeError("x"))}
    _reset(chunks, "silent")
    W.plan = [plan]
    t = _transport()
    t._incoming_send = Rec()
    t._message_url = "http://srv/messages/?session_id=s"
    t._send_client = FakeClient()
    t._sse_response = _SSEResponse(200)
    W.sse_task = STask(t._process_sse_stream())
    JM = importlib.import_module("chuk_mcp.protocol.messages.json_rpc_message")
    msg = JM.JSONRPCMessage(jsonrpc="2.0", id=rid, method="tools/list")
    _drive_top(t._send_message_via_http(msg))
    # whatever is still in flight on the stream arrives afterwards
    while W.deliver_next():
        pass
    delivered = [dump(m) for m in t._incoming_send.items]
    mine = [m for m in delivered if "method" not in m]
    others = [m for m in delivered if "method" in m]
    if len(W.posts) != 1 or not same_json(W.posts[0]["json"], dump(msg)):
        return "request-not-posted-exactly-once"
    if len(mine) != 1:
        return "not-exactly-one-terminal-message:" + str(len(mine))
    m = mine[0]
    if "id" not in m or not same_json(m["id"], rid):
        return "terminal-message-id-differs"
    g = grammar(m)
    if g != "ok":
        return "terminal-message-grammar:" + g
    if (mode in (1, 2) or (mode == 0 and bodysel == 0)) and not same_json(m.get("result"), {"ok": 1}):
        return "server-response-not-delivered"
    if mode == 4 and bodysel == 0 and status not in (200, 202) and (m.get("error") or {}).get("code") != -32000:
        return "server-error-body-not-delivered"
    exp_noise = 1 if (with_noise and mode in (0, 1, 2, 3)) else 0
    if len(others) != exp_noise:
        return "unrelated-stream-message-lost-or-duplicated"
    if t._pending_requests:
        return "pending-request-table-not-cleaned"
    return "ok"


def after_ended(end, idsel, status, second):
    """an EARLIER request with id X ended by (0) a 200 body, (1) 202 + event, (2) another status, (3) a POST that
    raised, (4) 202 and silence (synthesised timeout); afterwards the server itself uses the id X on the event stream -
    (0) a server request (ids of the two directions are independent), (1) a duplicate response - followed by a
    notification.  The server request must be delivered once, in order; nothing is swallowed by the dead request"""
    rid = pick_id(idsel)
    ev_resp = event_for(rid, {"result": {"ok": 1}})
    srv_req = "event: message\ndata: " + _json.dumps({"jsonrpc": "2.0", "id": rid, "method": "ping"}) + "\n\n"
    dup = event_for(rid, {"result": {"dup": 1}})
    note = "event: message\ndata: " + NOTE1 + "\n\n"
    if end == 0:
        plan, chunks = {"status": 200, "body": _json.dumps({"jsonrpc": "2.0", "id": rid, "result": {"ok": 1}}).encode()}, []
    elif end == 1:
        plan, chunks = {"status": 202}, [ev_resp]
    elif end == 2:
        plan, chunks = {"status": status, "body": b"<html>"}, []
    elif end == 3:
        plan, chunks = {"raise": _httpx.ConnectError("boom")}, []
    else:
        plan, chunks = {"status": 202}, []
    later = [srv_req if second == 0 else dup, note]
    _reset(chunks, "silent")
    W.plan = [plan]
    t = _transport()
    t._incoming_send = Rec()
    t._message_url = "http://srv/messages/?session_id=s"
    t._send_client = FakeClient()
    t._sse_response = _SSEResponse(200)
    W.sse_task = STask(t._process_sse_stream())
    JM = importlib.import_module("chuk_mcp.protocol.messages.json_rpc_message")
    _drive_top(t._send_message_via_http(JM.JSONRPCMessage(jsonrpc="2.0", id=rid, method="tools/list")))
    while W.deliver_next():
        pass
    n_first = len(t._incoming_send.items)
    if n_first != 1:
        return "earlier-request:not-exactly-one-terminal-message:%d" % n_first
    W.chunks += later
    while W.deliver_next():
        pass
    got = [dump(m) for m in t._incoming_send.items[1:]]
    if second == 0:
        if len(got) != 2 or got[0].get("method") != "ping" or not same_json(got[0].get("id"), rid):
            return "server-request-reusing-the-id-of-an-ended-request-not-delivered:%d" % len(got)
        if got[1].get("method") != "notifications/message":
            return "order-changed-after-an-ended-request"
    else:
        # a duplicate response for a request that has ended: delivering it or dropping it are both acceptable, the
        # notification after it must arrive
        if not got or got[-1].get("method") != "notifications/message":
            return "notification-after-a-duplicate-response-lost"
    if t._pending_requests:
        return "pending-request-table-not-cleaned"
    return "ok"


def notification_post(status, raises):
    """a notification is posted once and produces nothing on the read stream"""
    _reset([], "silent")
    W.plan = [{"raise": _httpx.ConnectError("x")} if raises else {"status": status}]
    t = _transport()
    t._incoming_send = Rec()
    t._message_url = "http://srv/messages/"
    t._send_client = FakeClient()
    import io
    import contextlib

    with contextlib.redirect_stderr(io.StringIO()):
        _drive_top(t._send_message_via_http({"jsonrpc": "2.0", "method": "notifications/initialized"}))
    if len(W.posts) != 1:
        return "notification-not-posted-once"
    if [m for m in t._incoming_send.items if getattr(m, "id", None) is not None]:
        return "message-with-id-for-a-notification"
    return "ok"


# ------------------------------------------------------------------ cleanup releases tasks, stream and clients
def cleanup(mode):
    """enter (endpoint announced), optionally with a request parked on the stream, then leave"""
    FakeClient.connect_mode, FakeClient.connect_status = "ok", 200
    _reset([announce_text(0)], "silent")
    t = _transport()
    orig_create = AsyncioShim.create_task
    tasks = []

    def create(coro):
        task = STask(coro)
        tasks.append(task)
        if coro.cr_code.co_name == "_handle_sse_connection":
            W.sse_task = task
        return task

    AsyncioShim.create_task = staticmethod(create)
    try:
        _drive_top(t.__aenter__())
        if mode == 1:
            f = SFuture()
            t._pending_requests["x"] = f
        try:
            _drive_top(t.__aexit__(None, None, None))
        except HarnessError:
            raise
        except Exception as e:
            return "exit-raised:" + type(e).__name__
    finally:
        AsyncioShim.create_task = staticmethod(orig_create)
    for task in tasks:
        if not task.finished:
            return "task-still-running-after-exit"
    if W.clients_closed != W.clients_open:
        return "http-client-not-closed"
    if W.stream_closed != 1:
        return "event-stream-not-closed"
    if t._pending_requests:
        return "pending-requests-not-cleared"
    return "ok"
