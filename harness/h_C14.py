"""C14 - deadlines, cancellation and progress behave the same under any traffic."""
from harness.sm import *  # noqa
from symcheck.env import Ticks  # noqa
from harness import sm

RID = "rid-14"
K_PROG_PART = 10  # right token, only `progress` present
K_PROG_EMPTY = 11  # right token, no progress/total/message members
PROG_KINDS = (K_PROG_OK, K_PROG_PART, K_PROG_EMPTY)


class _L:
    def __init__(self, k, i):
        self.k, self.i = k, i


def _mk(k, i, rid, token):
    if k == K_PROG_PART:
        return build(K_PROG_OK, i, rid, token, prog={"progress": i + 1})
    if k == K_PROG_EMPTY:
        return build(K_PROG_OK, i, rid, token, prog={})
    return build(k, i, rid, token)


def _token_from_wire(wire_items):
    d = dump(wire_items[0][1])
    return ((d.get("params") or {}).get("_meta") or {}).get("progressToken")


class _Script(list):
    def __getitem__(self, n):
        t, it = list.__getitem__(self, n)
        if isinstance(it, _L):
            it = _mk(it.k, it.i, RID, _token_from_wire(ENV.wire))
        return (t, it)


def _expected_cb(kinds, i):
    k = kinds[i]
    if k == K_PROG_OK:
        return (i + 1, 10, "m%d" % i)
    if k == K_PROG_PART:
        return (i + 1, None, None)
    return (0, None, None)


def _judge(out, kinds, ts, T, c, pre_cancelled, raise_at, rec):
    n = len(kinds)
    # ---- deadline
    if out.done > T:
        return "ended-after-deadline"
    if out.kind == "raised":
        return "unexpected-exception:" + str(out.text)
    resp = -1
    for i in range(n):
        if kinds[i] in (K_RESULT, K_ERROR) and ts[i] < T:
            resp = i
            break
    wire = [dump(m) for _, m in out.wire]
    reqs = [w for w in wire if w.get("method") == "m"]
    canc = [w for w in wire if w.get("method") == "notifications/cancelled"]
    if len(wire) != len(reqs) + len(canc):
        return "wire:unexpected-message"
    if pre_cancelled:
        if out.kind != "cancelled":
            return "precancelled-not-cancelled:" + str(out.kind)
        if len(reqs) != 0:
            return "precancelled-request-was-sent"
        if len(canc) > 1:
            return "more-than-one-cancelled-notification"
        if len(rec) != 0:
            return "callback-invoked-for-unsent-request"
        return "ok"
    if len(reqs) != 1 or wire[0].get("method") != "m" or wire[0].get("id") != RID:
        return "wire:request-missing-or-not-first"
    if out.kind == "cancelled":
        if c is None:
            return "cancelled-without-token-trigger"
        if not (c <= out.done and out.done <= c + POLL):
            return "cancel-not-within-one-poll-interval"
        if resp >= 0 and ts[resp] < c:
            return "cancelled-although-response-arrived-first"
        if len(canc) != 1:
            return "not-exactly-one-cancelled-notification"
        if (canc[0].get("params") or {}).get("requestId") != RID:
            return "cancelled-notification-wrong-id"
        if wire[1].get("method") != "notifications/cancelled":
            return "wire:order"
    else:
        if len(canc) != 0:
            return "cancelled-notification-without-cancellation"
        if out.kind == "timeout":
            if resp >= 0:
                return "timeout-although-response-arrived-in-time"
            if out.done != T:
                return "timeout-not-at-deadline"
            if c is not None and c + POLL < T:
                return "cancel-ignored-until-deadline"
        else:
            if resp < 0:
                return "completed-without-response"
            if out.kind == "result":
                if kinds[resp] != K_RESULT or not same_json(out.value, {"v": resp}):
                    return "wrong-result"
            elif out.kind == "retryable":
                if kinds[resp] != K_ERROR:
                    return "wrong-error"
            else:
                return "wrong-outcome:" + str(out.kind)
            if out.done != ts[resp]:
                return "completed-at-wrong-instant"
            if c is not None and ts[resp] > c + POLL:
                return "response-accepted-long-after-cancel"
    # ---- progress callback record
    exp = []
    lo = 0  # certainly delivered
    for i in range(n):
        if kinds[i] in PROG_KINDS:
            if out.kind == "cancelled":
                if ts[i] <= out.done:
                    exp.append(_expected_cb(kinds, i))
                    if ts[i] < c:
                        lo = len(exp)
            elif out.kind == "timeout":
                if ts[i] < T:
                    exp.append(_expected_cb(kinds, i))
                    lo = len(exp)
            else:
                if i < resp:
                    exp.append(_expected_cb(kinds, i))
                    lo = len(exp)
    if len(rec) < lo or len(rec) > len(exp):
        return "callback-count"
    for j in range(len(rec)):
        a, b = rec[j], exp[j]
        if not (a[0] == b[0] and a[1] == b[1] and a[2] == b[2]):
            return "callback-values-or-order"
    return "ok"


def _run(kinds, gaps, T, c, pre_cancelled, raise_at, real=False, raw=False):
    ts = abs_ticks(gaps)
    rec = []

    async def cb(progress, total, message):
        rec.append((progress, total, message))
        if len(rec) - 1 == raise_at:
            raise RuntimeError("callback failure")

    token = SM.CancellationToken()
    if pre_cancelled:
        token.cancel()
    items = [(ts[i], _L(kinds[i], i)) for i in range(len(kinds))]
    if not real:
        out = run_stub(
            _Script(items),
            lambda r, w: SM.send_message(r, w, "m", {"a": 1}, timeout=Ticks(T), message_id=RID, cancellation_token=token, progress_callback=cb),
            cancel_at=None if pre_cancelled else c,
            token=token,
        )
    else:
        from symcheck.env import TICKS_PER_SEC

        script = [(ts[i], (lambda w, i=i: _mk(kinds[i], i, RID, _token_from_wire(w)))) for i in range(len(kinds))]
        out = sm.run_real(
            script,
            lambda r, w: SM.send_message(r, w, "m", {"a": 1}, timeout=T / TICKS_PER_SEC, message_id=RID, cancellation_token=token, progress_callback=cb),
            T,
            cancel_at=None if pre_cancelled else c,
            token=token,
        )
    if raw:
        return out, rec
    return _judge(out, kinds, ts, T, c, pre_cancelled, raise_at, rec)


def pick_rid(i):
    if i == 0:
        return "rid-14"
    if i == 1:
        return 5
    if i == 2:
        return 2 ** 53 + 12345
    if i == 3:
        return -(2 ** 63)
    return "9007199254740993"


def traffic_id(kinds, gaps, T, c, idsel):
    """same oracle with other request ids (integers beyond 2^53, digit strings): the id on the wire, in the
    cancelled notification and in the matching must be the caller's own"""
    global RID
    saved = RID
    RID = pick_rid(idsel)
    try:
        return _run(kinds, gaps, T, c, False, -1)
    finally:
        RID = saved


def traffic(kinds, gaps, T, c, raise_at):
    return _run(kinds, gaps, T, c, False, raise_at)


def traffic_real(kinds, gaps, T, c, raise_at):
    return _run(kinds, gaps, T, c, False, raise_at, real=True)


def precancelled(kinds, gaps, T):
    return _run(kinds, gaps, T, None, True, -1)


def precancelled_real(kinds, gaps, T):
    return _run(kinds, gaps, T, None, True, -1, real=True)


def nocancel(kinds, gaps, T, raise_at):
    """token present but never triggered"""
    return _run(kinds, gaps, T, None, False, raise_at)


def nocancel_real(kinds, gaps, T, raise_at):
    return _run(kinds, gaps, T, None, False, raise_at, real=True)


# ------------------------------------------------------------------ stub world vs real anyio
def _sig(out, rec):
    return (out.kind, repr(out.value), out.code, out.done, [repr(dump(m)) for _, m in out.wire], list(rec))


def diff_one(kinds, gaps, T, c, ra):
    """Same schedule through the stub world and through real anyio on the virtual-time loop:
    outcome, completion tick, wire and callback record must be identical."""
    a = _sig(*_run(kinds, gaps, T, c, False, ra, raw=True))
    b = _sig(*_run(kinds, gaps, T, c, False, ra, real=True, raw=True))
    if a != b:
        return "stub-vs-real:" + repr(a) + " != " + repr(b)
    return "ok"


def diff_cases(rng, n):
    pool = [4, 3, 5, 10, 11, 6, 0, 1]
    edge = [0, 1, 63, 64, 65, 127, 128, 129, 191, 192]
    for _ in range(n):
        k = rng.randint(0, 3)
        kinds = tuple(rng.choice(pool) for _ in range(k))
        gaps = [rng.choice(edge) if rng.random() < 0.6 else rng.randint(0, 256) for _ in range(k)]
        T = rng.choice(edge[1:]) if rng.random() < 0.6 else rng.randint(1, 192)
        c = rng.choice([None, None] + edge) if rng.random() < 0.7 else rng.randint(0, 300)
        ra = rng.randint(-1, 1)
        yield (kinds, gaps, T, c, ra)


# ------------------------------------------------------------------ count dimension: long quiet (or busy) periods before the cancellation / deadline
from harness import sizes as _sizes  # noqa: E402


def late(k, off, mode, g, lim=410, real=False):
    """n = c-1, c, c+1 polling intervals pass (c: integer constants of the source) before the event; off = symbolic
    offset inside the next interval.  mode 0: cancel after n quiet polls; 1: a notification at tick g, then cancel
    after n polls; 2: deadline after n quiet polls (no cancel); 3: response after n quiet polls"""
    n = _sizes.pick(_sizes.size_cases(lim), k)
    at = n * POLL + off
    if mode == 0:
        return _run((), [], at + 3 * POLL, at, False, -1, real=real)
    if mode == 1:
        return _run((K_NOTIF,), [g], at + 3 * POLL, at, False, -1, real=real)
    if mode == 2:
        return _run((), [], max(at, 1), None, False, -1, real=real)
    return _run((K_RESULT,), [at], at + 3 * POLL, None, False, -1, real=real)


def late_real(k, off, mode, g, lim=410):
    return late(k, off, mode, g, lim, real=True)
