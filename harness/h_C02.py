"""C02 - everything emitted is valid JSON-RPC 2.0 and survives the library's own parser."""
import importlib
from symcheck.env import Ticks  # noqa
import inspect
import pkgutil
import sys

from harness.sm import *  # noqa
from harness import sm
from harness import h_C01 as H1

BATCH = importlib.import_module("chuk_mcp.protocol.features.batching")


def kind_of(d):
    if not isinstance(d, dict):
        return "not-an-object"
    if "method" in d:
        return "request" if "id" in d else "notification"
    if "result" in d or "error" in d:
        return "response"
    return "none"


def grammar(d, null_id_ok=False):
    """reference check of one emitted message object against JSON-RPC 2.0"""
    if not isinstance(d, dict):
        return "not-an-object"
    if d.get("jsonrpc") != "2.0" or type(d.get("jsonrpc")) is not str:
        return "version-not-2.0"
    k = kind_of(d)
    if k == "none":
        return "neither-call-nor-response"
    if "id" in d:
        i = d["id"]
        if i is None:
            if not (null_id_ok and k == "response" and "error" in d):
                return "null-id"
        elif type(i) is bool or not isinstance(i, (int, str)):
            return "id-not-string-or-integer"
    if k in ("request", "notification"):
        if not isinstance(d["method"], str):
            return "method-not-a-string"
        if "result" in d or "error" in d:
            return "call-with-result-or-error"
        if "params" in d and not isinstance(d["params"], (dict, list)):
            return "params-not-structured"
    else:
        if "id" not in d:
            return "response-without-id"
        if ("result" in d) == ("error" in d):
            return "response-not-exactly-one-of-result-error"
        if "error" in d:
            e = d["error"]
            if not isinstance(e, dict):
                return "error-not-an-object"
            if type(e.get("code")) is bool or not isinstance(e.get("code"), int):
                return "error-code-not-integer"
            if not isinstance(e.get("message"), str):
                return "error-message-not-string"
    return "ok"


def roundtrip(d):
    """the library's own parser returns a message of the same kind with identical members"""
    try:
        p = JM.parse_message(d)
    except Exception as e:
        return "own-parser-rejects:" + type(e).__name__
    if isinstance(p, list):
        return "parsed-as-batch"
    pd = p.model_dump(exclude_none=True)
    if kind_of(pd) != kind_of(d):
        return "kind-changed"
    for key in ("id", "method", "params", "result", "error"):
        if (key in d and d[key] is not None) != (key in pd):
            return "member-presence-changed:" + key
        if key in pd and not same_json(pd[key], d[key]):
            return "member-changed:" + key
    return "ok"


def check(d, null_id_ok=False):
    g = grammar(d, null_id_ok)
    if g != "ok":
        return "grammar:" + g
    r = roundtrip(d)
    if r != "ok":
        return "roundtrip:" + r
    return "ok"


shape = H1.shape


def _ctor_pairs():
    return [
        ("fn", JM.create_request, JM.create_notification, JM.create_response, JM.create_error_response),
        ("cls", JM.JSONRPCMessage.create_request, JM.JSONRPCMessage.create_notification, JM.JSONRPCMessage.create_response, JM.JSONRPCMessage.create_error_response),
    ]


def ctor(which, what, rid, method, psel, leaf, code, message, dsel):
    """message constructors (module functions: which=0, JSONRPCMessage classmethods: which=1)"""
    fam = _ctor_pairs()[which]
    params = shape(psel, leaf)
    if what == 0:
        m = fam[1](method, params, rid)
        want = {"jsonrpc": "2.0", "id": rid, "method": method}
        if params is not None:
            want["params"] = params
    elif what == 1:
        m = fam[2](method, params)
        want = {"jsonrpc": "2.0", "method": method}
        if params is not None:
            want["params"] = params
    elif what == 2:
        m = fam[3](rid, params)
        want = {"jsonrpc": "2.0", "id": rid, "result": params if params else {}}
    else:
        data = None if dsel == 0 else (leaf if dsel == 1 else {"a": [None, leaf]})
        m = fam[4](rid, code, message, data)
        e = {"code": code, "message": message}
        if data is not None:
            e["data"] = data
        want = {"jsonrpc": "2.0", "id": rid, "error": e}
    d = m.model_dump(exclude_none=True)
    if not same_json(d, want):
        return "emitted-form-differs-from-arguments"
    return check(d)


def ctor_json(which, what, idsel, psel, strsel):
    """concrete corpus through the real JSON encoder (model_dump_json) and back"""
    import json as _json

    rid = pick_id(idsel)
    s = pick_str(strsel)
    fam = _ctor_pairs()[which]
    params = shape(psel, s)
    if what == 0:
        m = fam[1](s or "m", params, rid)
    elif what == 1:
        m = fam[2](s or "m", params)
    elif what == 2:
        m = fam[3](rid, params)
    else:
        m = fam[4](rid, -32000, s, params)
    txt = m.model_dump_json(exclude_none=True)
    if "\n" in txt or "\r" in txt:
        return "raw-line-break-in-encoding"
    d = _json.loads(txt)
    if not same_json(d, m.model_dump(exclude_none=True)):
        return "json-text-differs-from-dump"
    return check(d)


def pick_id(i):
    if i == 0:
        return 0
    if i == 1:
        return -1
    if i == 2:
        return 2 ** 63
    if i == 3:
        return 2 ** 64 - 1
    if i == 4:
        return ""
    if i == 5:
        return "0"
    if i == 6:
        return "123"
    if i == 7:
        return "abc"
    return "-7"


def pick_val(i):
    # non-string leaves of the property's corpus: large and negative integers, floats at the edges, nested empties
    if i == 0:
        return 2 ** 63
    if i == 1:
        return -(2 ** 63)
    if i == 2:
        return 2 ** 64 - 1
    if i == 3:
        return 1e308
    if i == 4:
        return -0.0
    if i == 5:
        return 5e-324
    if i == 6:
        return [[], {}, [None, {"k": None}]]
    return True


def ctor_json_val(which, what, idsel, vsel):
    """numeric / nested corpus values through the real JSON text encoder and back"""
    import json as _json

    rid = pick_id(idsel)
    v = pick_val(vsel)
    fam = _ctor_pairs()[which]
    params = {"v": v, "deep": {"w": [v, None]}}
    if what == 0:
        m = fam[1]("m", params, rid)
    elif what == 1:
        m = fam[2]("m", params)
    elif what == 2:
        m = fam[3](rid, params)
    else:
        m = fam[4](rid, -32000, "e", params)
    txt = m.model_dump_json(exclude_none=True)
    if "\n" in txt or "\r" in txt:
        return "raw-line-break-in-encoding"
    d = _json.loads(txt)
    if not same_json(d, m.model_dump(exclude_none=True)):
        return "json-text-differs-from-dump"
    body = d.get("params") if what in (0, 1) else (d.get("result") if what == 2 else d["error"].get("data"))
    if not same_json(body, params):
        return "payload-value-changed"
    return check(d)


def pick_str(i):
    if i == 0:
        return "plain"
    if i == 1:
        return "line\nbreak"
    if i == 2:
        return "sep  \u0085"
    if i == 3:
        return "nul\x00\x1f"
    if i == 4:
        return "astral\U0001f600"
    if i == 5:
        return "quote\"\\"
    return ""


# ------------------------------------------------------------------ helpers and notification senders
def helper_wire(name):
    fn = H1.HELPERS[name]
    kw = H1.helper_args(fn)
    items = [(1, H1._LazyErr(-32603))]

    class L(list):
        def __getitem__(self, n):
            t, it = list.__getitem__(self, n)
            return (t, build(K_ERROR, 0, dump(ENV.wire[0][1])["id"], code=it.code))

    out = run_stub(L(items), lambda r, w: fn(r, w, timeout=Ticks(50), **kw))
    if not out.wire:
        return "nothing-written"
    for _, m in out.wire:
        r = check(m.model_dump(exclude_none=True) if hasattr(m, "model_dump") else m)
        if r != "ok":
            return r
    if kind_of(dump(out.wire[0][1])) != "request":
        return "helper-did-not-write-a-request"
    return "ok"


def discover_notifiers():
    M = importlib.import_module("chuk_mcp.protocol.messages")
    found = {}
    for mi in pkgutil.walk_packages(M.__path__, M.__name__ + "."):
        m = importlib.import_module(mi.name)
        for n, o in vars(m).items():
            if n.startswith("send_") and inspect.iscoroutinefunction(o) and o.__module__ == m.__name__:
                ps = list(inspect.signature(o).parameters)
                if ps[:1] == ["write_stream"]:
                    found[m.__name__.split(".")[-2 if m.__name__.endswith("send_messages") else -1] + "." + n] = o
    return dict(sorted(found.items()))


NOTIFIERS = discover_notifiers()


def notifier(name, rid, leaf, num):
    fn = NOTIFIERS[name]
    kw = {}
    for n, p in list(inspect.signature(fn).parameters.items())[1:]:
        if n in ("request_id", "progress_token"):
            kw[n] = rid
        elif n in ("reason", "message"):
            kw[n] = leaf
        elif n in ("progress", "total"):
            kw[n] = num
        elif p.default is inspect.Parameter.empty:
            raise HarnessError("no recipe for %s.%s" % (name, n))
    ENV.reset([])
    drive(fn(RecordingWriteStream(), **kw))
    if len(ENV.wire) != 1:
        return "not-exactly-one-message"
    d = dump(ENV.wire[0][1])
    if kind_of(d) != "notification":
        return "not-a-notification"
    return check(d)


# ------------------------------------------------------------------ server outputs
def server_out(method, has_id, rid, psel, leaf, hsel):
    from harness import h_C08 as H8

    s = H8.make_server(hsel)
    try:
        msg = H8._msg(method, has_id, rid, H8.params_shape(psel, leaf))
    except Exception:
        return "ok"
    out = drive(s.protocol_handler.handle_message(msg, None))
    resp = out[0]
    if resp is None:
        return "ok"
    d = resp.model_dump(exclude_none=True)
    if kind_of(d) != "response":
        return "server-emitted-non-response"
    return check(d)


# ------------------------------------------------------------------ batching error objects
def batch_rejection(vsel, idk, rid_i, rid_s):
    from harness.h_C13 import pick_version

    bp = BATCH.BatchProcessor(pick_version(vsel))
    mid = None if idk == 0 else (rid_i if idk == 1 else rid_s)
    d = bp.create_batch_rejection_error(mid)
    r = grammar(d, null_id_ok=True)
    if r != "ok":
        return "grammar:" + r
    if mid is not None:
        return check(d)
    return "ok"


def batch_item_error(rid):
    """process_message_data turns a failing batch item into an error object carrying the item's id"""
    bp = BATCH.BatchProcessor("2025-03-26")

    def handler(item):
        if item.get("id") == rid:
            raise RuntimeError("x")
        return None

    out = bp.process_message_data([{"jsonrpc": "2.0", "id": rid, "method": "m"}, {"jsonrpc": "2.0", "method": "n"}], handler)
    if not isinstance(out, list) or len(out) != 1:
        return "batch-output-shape"
    return check(out[0])


# ------------------------------------------------------------------ the transports' serialisers as emitters
def _built(which, what, idsel, psel, strsel, st=None):
    rid = pick_id(idsel)
    st = pick_str(strsel) if st is None else st
    fam = _ctor_pairs()[which]
    params = shape(psel, st)
    if what == 0:
        return fam[1](st or "m", params, rid)
    if what == 1:
        return fam[2](st or "m", params)
    if what == 2:
        return fam[3](rid, params)
    if what == 3:
        return fam[4](rid, -32000, st, params)
    # typed objects built DIRECTLY, leaving `jsonrpc` (and every other optional member) to the model defaults
    if what == 4:
        return JM.JSONRPCRequest(id=rid, method=st or "m", params=params)
    if what == 5:
        return JM.JSONRPCNotification(method=st or "m")
    if what == 6:
        return JM.JSONRPCResponse(id=rid, result=params if params is not None else {})
    if what == 7:
        return JM.JSONRPCError(id=rid, error={"code": -32000, "message": st})
    return JM.JSONRPCMessage(id=rid, method=st or "m")


def wire_long(which, what, k, pat, psel, idsel):
    """size dimension: the string member (method / message / params leaf) has c-1, c, c+1 characters"""
    from harness import sizes as _sizes

    n = _sizes.pick(_sizes.size_cases(70000, extra=_sizes.ENV_SIZES), k)
    return wire_transports(which, what, idsel, psel, 0, st=_sizes.long_text(n, pat))


def wire_transports(which, what, idsel, psel, strsel, st=None):
    """what each carrier actually emits for a message built by the library's constructors: the stdio line, and the
    JSON value posted by the Streamable HTTP and legacy SSE transports"""
    import json as _json
    from harness import h_C06, h_C11, h_C12
    from harness.stdio_fake import make_client, Rec

    m = _built(which, what, idsel, psel, strsel, st)
    want = m.model_dump(exclude_none=True)
    # stdio
    c = make_client()
    c._outgoing_recv = h_C06._Outgoing([m])
    drive(c._stdin_writer())
    data = b"".join(c.process.stdin.chunks)
    if data.count(b"\n") != 1 or not data.endswith(b"\n"):
        return "stdio:not-one-line"
    d = _json.loads(data[:-1].decode("utf-8"))
    r = check(d)
    if r != "ok":
        return "stdio:" + r
    if not same_json(d, want):
        return "stdio:line-differs-from-message"
    # Streamable HTTP
    h_C11.W.plan, h_C11.W.posts = [("resp", h_C11.FakeResponse(202, {}, b""))], []
    t = h_C11.make_transport()
    drive(t._send_message_internal(m))
    if len(h_C11.W.posts) != 1:
        return "http:not-posted-once"
    r = check(h_C11.W.posts[0]["json"])
    if r != "ok":
        return "http:" + r
    if not same_json(h_C11.W.posts[0]["json"], want):
        return "http:posted-value-differs-from-message"
    # legacy SSE
    h_C12._reset([], "silent")
    h_C12.W.plan = [{"status": 200, "body": b'{"jsonrpc":"2.0","id":"zz","result":{}}'}]
    t3 = h_C12._transport()
    t3._incoming_send = Rec()
    t3._message_url = "http://srv/messages/"
    t3._send_client = h_C12.FakeClient()
    h_C12._drive_top(t3._send_message_via_http(m))
    if len(h_C12.W.posts) != 1:
        return "sse:not-posted-once"
    r = check(h_C12.W.posts[0]["json"])
    if r != "ok":
        return "sse:" + r
    if not same_json(h_C12.W.posts[0]["json"], want):
        return "sse:posted-value-differs-from-message"
    return "ok"
