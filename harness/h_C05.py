"""C05 - stdio inbound framing is independent of how the byte stream is chunked."""
import codecs
import importlib

from symcheck.env import drive, dump, same_json, HarnessError
from harness.stdio_fake import make_client, STDIO, FakeProcess

FJ = importlib.import_module("chuk_mcp.protocol.fast_json")


# ---- R7: the documented incremental-decoder contract over one-shot bytes.decode (CrossHair's own
# incremental decoder raises IndexError on an empty chunk)
class IncDecoder:
    def __init__(self, errors="strict"):
        self.errors = errors
        self.buf = b""

    def decode(self, data, final=False):
        data = self.buf + bytes(data)
        cut = len(data)
        if not final:
            k = 1
            while k <= 3 and k <= len(data):
                c = data[len(data) - k]
                if c >= 0xC0:
                    need = 2 if c < 0xE0 else (3 if c < 0xF0 else 4)
                    if need > k:
                        cut = len(data) - k
                    break
                if c < 0x80:
                    break
                k += 1
        self.buf = data[cut:]
        return data[:cut].decode("utf-8", self.errors)

    def reset(self):
        self.buf = b""


def _fake_getincrementaldecoder(name):
    if name.lower().replace("_", "-") not in ("utf-8", "utf8"):
        raise HarnessError("unexpected codec " + name)
    return IncDecoder


def validate_decoder():
    """differential run against CPython's decoder: all byte strings <= 3 bytes over a 12-byte alphabet, every 2-chunk cut"""
    import itertools

    alpha = [0x00, 0x41, 0x0A, 0x7F, 0xC2, 0x80, 0xE2, 0x82, 0xAC, 0xF0, 0x9F, 0x98]
    n = 0
    for L in range(0, 4):
        for t in itertools.product(alpha, repeat=L):
            b = bytes(t)
            for i in range(L + 1):
                outs = []
                for D in (IncDecoder, codecs.getincrementaldecoder("utf-8")):
                    d = D(errors="replace")
                    try:
                        outs.append(d.decode(b[:i]) + "|" + d.decode(b[i:]))
                    except Exception as e:
                        outs.append("exc:" + type(e).__name__)
                n += 1
                if outs[0] != outs[1]:
                    # only valid prefixes matter for the property; report any disagreement on valid UTF-8 input
                    try:
                        b.decode("utf-8")
                    except UnicodeDecodeError:
                        continue
                    return "decoder-stub-differs:%r cut %d: %r vs %r" % (b, i, outs[0], outs[1])
    return n


class _JsonRecorder:
    """stands in for the module-level `json` of stdio_client: records what is handed to the decoder"""

    JSONDecodeError = FJ.JSONDecodeError if hasattr(FJ, "JSONDecodeError") else ValueError

    def __init__(self):
        self.lines = []

    def loads(self, s):
        self.lines.append(s)
        return {"jsonrpc": "2.0", "method": "x"}

    def dumps(self, o, **kw):
        return FJ.dumps(o, **kw)


def _run_reader(chunks, record_json=True, prepare=None):
    c = make_client(chunks)
    if prepare is not None:
        prepare(c)
    rec = _JsonRecorder()
    delivered = []
    saved_json = STDIO.json
    saved_codecs = getattr(STDIO, "codecs", None)
    if saved_codecs is not None:
        class _C:
            getincrementaldecoder = staticmethod(_fake_getincrementaldecoder)
        STDIO.codecs = _C
    if record_json:
        # seams used by (a)/(b): the module-level `json` of stdio_client and the client's _process_message_data
        if not hasattr(STDIO, "json") or not hasattr(c, "_process_message_data"):
            raise HarnessError("seam missing: stdio_client.json / StdioClient._process_message_data")
        STDIO.json = rec

        async def pm(data):
            delivered.append(data)

        c._process_message_data = pm
    try:
        drive(c._stdout_reader())
    finally:
        STDIO.json = saved_json
        if saved_codecs is not None:
            STDIO.codecs = saved_codecs
    return c, rec.lines


def valid_utf8(b):
    try:
        b.decode("utf-8")
        return True
    except UnicodeDecodeError:
        return False


def _ref_lines(text):
    parts = text.split("\n")
    return [p.strip() for p in parts[:-1] if p.strip()]


def bytes_cut(b, i):
    """(a) one cut of a valid UTF-8 byte stream: same lines as unchunked, and as the reference"""
    _, whole = _run_reader([b])
    _, cut = _run_reader([b[:i], b[i:]])
    if whole != cut:
        return "chunking-changed-lines"
    if whole != _ref_lines(b.decode("utf-8")):
        return "lines-differ-from-reference"
    return "ok"


def bytes_cut2(b, i, j):
    _, whole = _run_reader([b])
    _, cut = _run_reader([b[:i], b[i:j], b[j:]])
    if whole != cut:
        return "chunking-changed-lines"
    return "ok"


def text_cut(s, i, j):
    """(b) str chunks (the reader accepts them too): three chunks vs one"""
    _, whole = _run_reader([s])
    _, cut = _run_reader([s[:i], s[i:j], s[j:]])
    if whole != cut:
        return "chunking-changed-lines"
    if whole != _ref_lines(s):
        return "lines-differ-from-reference"
    return "ok"


# ------------------------------------------------------------------ (c) isolation and routing on concrete corpora, symbolic cut
import json as _json

LINES = {
    "resp": {"jsonrpc": "2.0", "id": 1, "result": {"t": "\u00e9\u20ac\U0001f600\\n\u0085\u2028\u2029"}},
    "notif": {"jsonrpc": "2.0", "method": "notifications/message", "params": {"d": "\u00fc"}},
    "req": {"jsonrpc": "2.0", "id": "s-1", "method": "roots/list"},
    # numbers beyond the fast decoder's native range, a float at the edge, deep nesting
    "big": {"jsonrpc": "2.0", "id": 2 ** 63 + 1, "result": {"n": 2 ** 70, "u": 2 ** 64 - 1, "f": 1e308, "z": -0.0, "deep": [[[[{"k": None}]]]]}},
}


def _encode(kinds, crlf):
    out = b""
    exp_main, exp_notif = [], []
    for k in kinds:
        if k in LINES:
            txt = _json.dumps(LINES[k], ensure_ascii=False)
            exp_main.append(LINES[k])
            if k == "notif":
                exp_notif.append(LINES[k])
        elif k == "junk":
            txt = "this is not json {"
        elif k == "notmsg":
            txt = '{"hello": "world"}'
        elif k == "empty":
            txt = ""
        elif k == "array_junk":
            txt = "[1, 2"
        elif k == "trail":   # a valid message followed by other text on the same line: the LINE is not valid JSON
            txt = _json.dumps(LINES["req"], ensure_ascii=False) + " log"
        elif k == "double":  # two messages on one line (a lost line feed): not one valid JSON document
            txt = _json.dumps(LINES["req"], ensure_ascii=False) + " " + _json.dumps(LINES["req"], ensure_ascii=False)
        elif k == "trail_nospace":
            txt = _json.dumps(LINES["req"], ensure_ascii=False) + "x"
        else:
            raise HarnessError(k)
        out += txt.encode("utf-8") + (b"\r\n" if crlf else b"\n")
    return out, exp_main, exp_notif


import anyio as _anyio


class _RefusingNotify:
    """notification stream that nobody drains (full) or that was closed: the offer fails, delivery on the read stream must not"""

    def __init__(self, mode):
        self.mode, self.items = mode, []

    def send_nowait(self, item):
        if self.mode == 1:
            raise _anyio.WouldBlock()
        if self.mode == 2:
            raise _anyio.BrokenResourceError()
        # (ClosedResourceError would mean the client closed its OWN notification send stream, which it never does:
        #  not part of the stub's contract - an earlier version included it and raised a false alarm)
        self.items.append(item)

    async def send(self, item):
        self.send_nowait(item)


def routing_notify_refused(kinds, mode):
    data, exp_main, exp_notif = _encode(kinds, False)
    def prep(client):
        client._notify_send = _RefusingNotify(mode)

    c, _ = _run_reader([data], record_json=False, prepare=prep)
    main = [dump(m) for m in c._incoming_send.items]
    if not same_json(main, exp_main):
        return "main-stream-differs-when-notification-offer-fails"
    return "ok"


class _Legacy:
    """per-request stream of the legacy API (new_request_stream): the read stream must get the message regardless"""

    def __init__(self, mode):
        self.mode, self.items, self.closed = mode, [], 0

    async def send(self, item):
        if self.mode == 1 or self.closed:
            raise _anyio.BrokenResourceError()
        self.items.append(item)

    def send_nowait(self, item):
        if self.mode == 1 or self.closed:
            raise _anyio.BrokenResourceError()
        self.items.append(item)

    async def aclose(self):
        self.closed += 1

    def close(self):
        self.closed += 1

    def statistics(self):
        # the caller that registered this stream is alive but not suspended in receive() right now (it is still
        # sending, or reads its streams one after the other)
        class _S:
            current_buffer_used, max_buffer_size, open_send_streams, open_receive_streams = 0, 1, 1, 1
            tasks_waiting_send, tasks_waiting_receive = 0, 0

        return _S()


def routing_legacy_pending(kinds, mode, key_as_int):
    """a legacy per-request stream is registered for the id of the response in the stream"""
    data, exp_main, exp_notif = _encode(kinds, False)
    leg = _Legacy(mode)
    other = _Legacy(0)  # a second caller whose own stream is fine

    def prep(client):
        client._pending["1"] = leg
        client._pending["s-1"] = other

    c, _ = _run_reader([data], record_json=False, prepare=prep)
    main = [dump(m) for m in c._incoming_send.items]
    if not same_json(main, exp_main):
        return "main-stream-differs-when-a-legacy-stream-is-pending"
    if mode == 0 and "resp" in kinds and len(leg.items) != 1:
        return "legacy-stream-did-not-get-its-response"
    if "req" in kinds and len(other.items) != 1:
        return "another-caller's-stream-did-not-get-its-message"
    return "ok"


def routing(kinds, crlf, i, d):
    """chunks [data[:i], data[i:i+d], data[i+d:]] (d = 0: two chunks) - every cut position i is one path"""
    data, exp_main, exp_notif = _encode(kinds, crlf)
    if not (0 <= i and i + d <= len(data)):
        return "ok"
    chunks = [data[:i], data[i:i + d], data[i + d:]] if d else [data[:i], data[i:]]
    c, _ = _run_reader(chunks, record_json=False)
    main = [dump(m) for m in c._incoming_send.items]
    notif = [dump(m) for m in c._notify_send.items]
    if not same_json(main, exp_main):
        return "main-stream-differs"
    if not same_json(notif, exp_notif):
        return "notification-stream-differs"
    return "ok"


def data_len(kinds, crlf):
    return len(_encode(kinds, crlf)[0])


# ------------------------------------------------------------------ (d) back-pressure: a read stream of bounded capacity
from harness.stdio_fake import BoundedRec  # noqa: E402


class _DrainingStdout:
    def __init__(self, chunks, client):
        self.chunks, self.client = chunks, client

    def __aiter__(self):
        self._i = 0
        return self

    async def __anext__(self):
        s = self.client._incoming_send
        if isinstance(s, BoundedRec):
            s.drain()  # the reader waits for the child: the consumer runs
        if self._i >= len(self.chunks):
            raise StopAsyncIteration
        c = self.chunks[self._i]
        self._i += 1
        return c


def _bounded(chunks, cap):
    def prep(client):
        client._incoming_send = BoundedRec(cap)
        client.process.stdout = _DrainingStdout(list(chunks), client)

    c, _ = _run_reader(chunks, record_json=False, prepare=prep)
    return c


def routing_bounded(kinds, cap, i):
    """a few lines, one cut, read stream of capacity `cap` (symbolic, >= 1)"""
    data, exp_main, exp_notif = _encode(kinds, False)
    if not (0 <= i <= len(data)):
        return "ok"
    c = _bounded([data[:i], data[i:]] if i else [data], cap)
    main = [dump(m) for m in c._incoming_send.items]
    if not same_json(main, exp_main):
        return "main-stream-differs-under-back-pressure"
    return "ok"


from harness import sizes as _sizes  # noqa: E402


def _many_lines(n, kind):
    one = {"jsonrpc": "2.0", "method": "notifications/message", "params": {"n": 0}} if kind == 0 else {"jsonrpc": "2.0", "id": 7, "result": {"n": 0}}
    msgs = []
    for j in range(n):
        m = {"jsonrpc": "2.0"}
        m.update(one)
        if kind == 0:
            m["params"] = {"n": j}
        elif kind == 1:
            m["id"] = j + 1
        else:
            m = ({"jsonrpc": "2.0", "method": "notifications/message", "params": {"n": j}}, {"jsonrpc": "2.0", "id": j + 1, "result": {}}, {"jsonrpc": "2.0", "id": "s%d" % j, "method": "ping"})[j % 3]
        msgs.append(m)
    data = b"".join(_json.dumps(m).encode() + b"\n" for m in msgs)
    return msgs, data


def many_lines(k, kind, cap, nchunks, lim=410):
    """count dimension: c-1, c, c+1 lines (c: integer constants of the source) arriving in ONE read, or cut into
    nchunks reads of equal size; read stream of capacity cap"""
    n = _sizes.pick(_sizes.size_cases(lim), k)
    msgs, data = _many_lines(n, kind)
    if nchunks <= 1:
        chunks = [data]
    else:
        step = len(data) // nchunks + 1
        chunks = [data[a:a + step] for a in range(0, len(data), step)]
    c = _bounded(chunks, cap)
    main = [dump(m) for m in c._incoming_send.items]
    if len(main) != len(msgs):
        return "lines-lost-or-duplicated:%d" % (len(main) - len(msgs))
    if not same_json(main, msgs):
        return "main-stream-differs-under-back-pressure"
    return "ok"


def _real_bounded(chunks, cap):
    """the real reader on real anyio memory streams of capacity cap, with a consumer task"""
    import anyio
    from symcheck import vloop

    got = []

    async def main():
        c = make_client(chunks)
        c._incoming_send, recv = anyio.create_memory_object_stream(cap)
        c._notify_send, nrecv = anyio.create_memory_object_stream(100)

        async def consume():
            async for m in recv:
                got.append(dump(m))

        async with anyio.create_task_group() as tg:
            tg.start_soon(consume)
            await c._stdout_reader()
            await anyio.sleep(0.01)
            await c._incoming_send.aclose()

    vloop.run_virtual(main)
    return got


def routing_bounded_real(kinds, cap, i):
    data, exp_main, exp_notif = _encode(kinds, False)
    if not (0 <= i <= len(data)):
        return "ok"
    got = _real_bounded([data[:i], data[i:]] if i else [data], cap)
    if not same_json(got, exp_main):
        return "main-stream-differs-under-back-pressure"
    return "ok"


def many_lines_real(k, kind, cap, nchunks, lim=410):
    n = _sizes.pick(_sizes.size_cases(lim), k)
    msgs, data = _many_lines(n, kind)
    if nchunks <= 1:
        chunks = [data]
    else:
        step = len(data) // nchunks + 1
        chunks = [data[a:a + step] for a in range(0, len(data), step)]
    got = _real_bounded(chunks, cap)
    if len(got) != len(msgs):
        return "lines-lost-or-duplicated:%d" % (len(got) - len(msgs))
    if not same_json(got, msgs):
        return "main-stream-differs-under-back-pressure"
    return "ok"


_sizes.size_cases(70000, extra=_sizes.ENV_SIZES)
_sizes.size_cases(140000, extra=_sizes.ENV_SIZES)


def long_line(k, pat, cutsel, crlf, lim=70000):
    """size dimension: a line carrying a string of c-1, c, c+1 characters (c: integer constants of the source and
    environment sizes) followed by a short line; cut (0) three bytes before its end, (1) in the middle, (2) into
    8 KiB reads, (3) into 1000-byte reads up to 64 reads then the rest, (4) not at all"""
    n = _sizes.pick(_sizes.size_cases(lim, extra=_sizes.ENV_SIZES), k)
    m1 = {"jsonrpc": "2.0", "id": 1, "result": {"t": _sizes.long_text(n, pat)}}
    m2 = {"jsonrpc": "2.0", "method": "notifications/message", "params": {"d": "after"}}
    nl = b"\r\n" if crlf else b"\n"
    head = _json.dumps(m1, ensure_ascii=False).encode("utf-8")
    text = head + nl + _json.dumps(m2).encode("utf-8") + nl
    if cutsel == 0:
        c = max(len(head) - 3, 0)
        parts = [text[:c], text[c:]]
    elif cutsel == 1:
        c = len(head) // 2
        parts = [text[:c], text[c:]]
    elif cutsel == 2:
        parts = [text[a:a + 8192] for a in range(0, len(text), 8192)]
    elif cutsel == 3:
        parts = [text[a:a + 1000] for a in range(0, min(len(text), 64000), 1000)] + ([text[64000:]] if len(text) > 64000 else [])
    else:
        parts = [text]
    c, _ = _run_reader(parts, record_json=False)
    main = [dump(m) for m in c._incoming_send.items]
    if len(main) != 2:
        return "long-line-lost-or-split:%d" % len(main)
    if not same_json(main, [m1, m2]):
        return "main-stream-differs"
    return "ok"


def text_line(i, cutsel, crlf):
    """content corpus: a line whose JSON string carries the i-th 'active' text RAW, between two ordinary lines"""
    m0 = {"jsonrpc": "2.0", "id": 0, "result": {}}
    m1 = {"jsonrpc": "2.0", "id": 1, "result": {"t": _sizes.pick_text(i), "k": [_sizes.pick_text(i)]}}
    m2 = {"jsonrpc": "2.0", "method": "notifications/message", "params": {"d": "after"}}
    nl = b"\r\n" if crlf else b"\n"
    head = _json.dumps(m0).encode() + nl + _json.dumps(m1, ensure_ascii=False).encode("utf-8")
    text = head + nl + _json.dumps(m2).encode("utf-8") + nl
    if cutsel == 0:
        c = max(len(head) - 3, 0)
        parts = [text[:c], text[c:]]
    elif cutsel == 1:
        parts = [text[a:a + 5] for a in range(0, len(text), 5)]
    else:
        parts = [text]
    c, _ = _run_reader(parts, record_json=False)
    main = [dump(m) for m in c._incoming_send.items]
    if len(main) != 3:
        return "line-with-active-text-lost-or-split:%d" % len(main)
    if not same_json(main, [m0, m1, m2]):
        return "main-stream-differs"
    return "ok"
