"""C18 - concurrent requests on one connection: no cross-talk, no lost responses."""
from harness.sm import *  # noqa
from symcheck.env import Ticks  # noqa
from harness import sm
from symcheck.env import MiniSched, ENV, fine_start, SUB, TICKS_PER_SEC
from symcheck import env as E


def _ids(n):
    return ["caller-%d" % j for j in range(n)]


def _script(order, notif_pos, gaps):
    """answers in `order`; optional unrelated notification inserted at position notif_pos (or -1)."""
    ids = _ids(len(order))
    msgs = [JSONRPCMessage(jsonrpc="2.0", id=ids[j], result={"v": j}) for j in order]
    tags = [("resp", j) for j in order]
    if notif_pos >= 0:
        msgs.insert(notif_pos, JSONRPCMessage(jsonrpc="2.0", method="notifications/message", params={"x": 1}))
        tags.insert(notif_pos, ("notif", -1))
    ts = abs_ticks(gaps)
    return [(ts[i], msgs[i]) for i in range(len(msgs))], tags, ts


class _Wire:
    def __init__(self):
        self.items = []

    async def send(self, item):
        self.items.append(item)

    async def aclose(self):
        pass


def _run_stub(n, script, T):
    E._uuid = None
    sm._uuid_ctr[0] = 0
    ENV.reset([])
    sched = MiniSched(script)
    rs, ws = sched.stream(), _Wire()
    ids = _ids(n)
    coros = [SM.send_message(rs, ws, "m", {"j": j}, timeout=Ticks(T), message_id=ids[j]) for j in range(n)]
    tasks = sched.run(coros)
    res = []
    for t in tasks:
        if t.exc is None:
            res.append(("result", t.result, t.done))
        elif isinstance(t.exc, TimeoutError):
            res.append(("timeout", None, t.done))
        else:
            res.append(("raised:" + type(t.exc).__name__, None, t.done))
    return res, list(sched.handovers), ws.items


def _run_real(n, script, T):
    import anyio
    from symcheck import vloop

    sm._uuid_ctr[0] = 0
    ids = _ids(n)
    handovers, res, wire = [], [None] * n, _Wire()

    async def main():
        send, recv = anyio.create_memory_object_stream(1000)

        class Proxy:
            def __init__(self, j):
                self.j = j

            async def receive(self):
                item = await recv.receive()
                handovers.append((self.j, item))
                return item

        async def feed():
            for pos, (t, it) in enumerate(script):
                await vloop.sleep_until_arrival(t, pos)
                await send.send(it)

        async def caller(j):
            await vloop.sleep_until(fine_start(j) / SUB)
            try:
                r = await SM.send_message(Proxy(j), wire, "m", {"j": j}, timeout=T / TICKS_PER_SEC, message_id=ids[j])
                res[j] = ("result", r, int(vloop.now_ticks()))
            except TimeoutError:
                res[j] = ("timeout", None, int(vloop.now_ticks()))
            except Exception as e:  # noqa
                res[j] = ("raised:" + type(e).__name__, None, int(vloop.now_ticks()))

        async with anyio.create_task_group() as tg:
            tg.start_soon(feed)
            async with anyio.create_task_group() as callers:
                for j in range(n):
                    callers.start_soon(caller, j)
            tg.cancel_scope.cancel()

    vloop.run_virtual(main)
    return res, handovers, wire.items


def _misdirected(handovers, n):
    ids = _ids(n)
    for j, item in handovers:
        mid = getattr(item, "id", None)
        if getattr(item, "method", None) is None and mid is not None and mid != ids[j]:
            for k in range(n):
                if mid == ids[k]:
                    return True
    return False


def _judge(res, handovers, wire, n, tags, ts, T, mode):
    # (i) no cross-talk - unconditional
    for j in range(n):
        kind, val, done = res[j]
        if kind == "result" and not same_json(val, {"v": j}):
            return "cross-talk:caller-got-foreign-payload"
        if kind.startswith("raised"):
            return "caller-" + kind
        if done > T:
            return "caller-ended-after-deadline"
    if len(wire) != n:
        return "wire:not-one-request-per-caller"
    if mode == "crosstalk":
        return "ok"
    # (ii) no lost response
    mis = _misdirected(handovers, n)
    if mode == "lost-unless-misdirected" and mis:
        return "ok"  # the known-finding region, see lost_any
    for i in range(len(tags)):
        what, j = tags[i]
        if what == "resp" and ts[i] < T and res[j][0] != "result":
            return "lost-response:misdirected-handover" if mis else "lost-response"
    return "ok"


def crosstalk(order, notif_pos, gaps, T):
    script, tags, ts = _script(order, notif_pos, gaps)
    return _judge(*_run_stub(len(order), script, T), len(order), tags, ts, T, "crosstalk")


def lost_unless_misdirected(order, notif_pos, gaps, T):
    script, tags, ts = _script(order, notif_pos, gaps)
    return _judge(*_run_stub(len(order), script, T), len(order), tags, ts, T, "lost-unless-misdirected")


def lost_any(order, notif_pos, gaps, T):
    script, tags, ts = _script(order, notif_pos, gaps)
    return _judge(*_run_stub(len(order), script, T), len(order), tags, ts, T, "lost-any")


def crosstalk_real(order, notif_pos, gaps, T):
    script, tags, ts = _script(order, notif_pos, gaps)
    return _judge(*_run_real(len(order), script, T), len(order), tags, ts, T, "crosstalk")


def lost_unless_misdirected_real(order, notif_pos, gaps, T):
    script, tags, ts = _script(order, notif_pos, gaps)
    return _judge(*_run_real(len(order), script, T), len(order), tags, ts, T, "lost-unless-misdirected")


def lost_any_real(order, notif_pos, gaps, T):
    script, tags, ts = _script(order, notif_pos, gaps)
    return _judge(*_run_real(len(order), script, T), len(order), tags, ts, T, "lost-any")


# ------------------------------------------------------------------ ids of equal text / different JSON type (backend F)
def crosstalk_ids(order, notif_pos, id0, id1):
    """two callers whose ids are arbitrary distinct JSON values (str vs int, e.g. "7" and 7); concrete schedule"""
    ids = [id0, id1]
    msgs = [JSONRPCMessage(jsonrpc="2.0", id=ids[j], result={"v": j}) for j in order]
    if notif_pos >= 0:
        msgs.insert(notif_pos, JSONRPCMessage(jsonrpc="2.0", method="notifications/message", params={"x": 1}))
    script = [(i + 1, msgs[i]) for i in range(len(msgs))]
    sm._uuid_ctr[0] = 0
    ENV.reset([])
    sched = MiniSched(script)
    rs, ws = sched.stream(), _Wire()
    coros = [SM.send_message(rs, ws, "m", {"j": j}, timeout=Ticks(100), message_id=ids[j]) for j in range(2)]
    tasks = sched.run(coros)
    for t in tasks:
        if t.exc is None and not same_json(t.result, {"v": t.idx}):
            return "cross-talk:caller-got-foreign-payload"
        if t.exc is not None and not isinstance(t.exc, TimeoutError):
            return "caller-raised:" + type(t.exc).__name__
    if len(ws.items) != 2:
        return "wire:not-one-request-per-caller"
    for j in range(2):
        if not same_json(dump(ws.items[j]).get("id"), ids[j]):
            return "wire:id-changed"
    return "ok"


def pick_near(i):
    """pairs of DISTINCT ids that a lossy comparison could identify: neighbours beyond 2^53 (equal as doubles),
    beyond 2^63/2^64, 19-digit time_ns-style ids, long strings sharing all but one position, str vs int"""
    if i == 0:
        return 2 ** 53, 2 ** 53 + 1
    if i == 1:
        return 1700000000000000000, 1700000000000000001
    if i == 2:
        return 2 ** 63, 2 ** 63 + 1
    if i == 3:
        return -(2 ** 53) - 1, -(2 ** 53)
    if i == 4:
        return 10 ** 30, 10 ** 30 + 1
    if i == 5:
        return 2 ** 64 + 5, 5
    if i == 6:
        return 10 ** 400, 10 ** 400 + 1     # beyond the range of a double
    if i == 7:
        return 1, True if False else 2       # small control pair
    if i == 8:
        return "9007199254740993", 9007199254740993
    if i == 9:
        return "1e3", "1000"
    if i == 10:
        return "a" * 40 + "X", "a" * 40 + "Y"
    return "id\u00e9", "ide\u0301"           # NFC vs NFD of the same text


def crosstalk_near(order, notif_pos, i, swap):
    a, b = pick_near(i)
    if swap:
        a, b = b, a
    return crosstalk_ids(order, notif_pos, a, b)


# ------------------------------------------------------------------ stub vs real
def _sig(res, handovers, wire):
    return ([(k, repr(v), d) for k, v, d in res], [(j, repr(dump(it))) for j, it in handovers], len(wire))


def diff_one(order, notif_pos, gaps, T):
    script, tags, ts = _script(order, notif_pos, gaps)
    a = _sig(*_run_stub(len(order), script, T))
    b = _sig(*_run_real(len(order), script, T))
    if a != b:
        return "stub-vs-real:" + repr(a) + " != " + repr(b)
    return "ok"


def diff_cases(rng, n):
    import itertools

    edge = [0, 1, 63, 64, 65, 127, 128, 129, 191, 192]
    for _ in range(n):
        k = rng.choice([2, 2, 3, 3, 4])
        order = list(range(k))
        rng.shuffle(order)
        notif = rng.choice([-1, -1] + list(range(k + 1)))
        m = k + (1 if notif >= 0 else 0)
        gaps = [rng.choice(edge) if rng.random() < 0.5 else rng.randint(0, 140) for _ in range(m)]
        T = rng.choice(edge[1:]) if rng.random() < 0.5 else rng.randint(1, 192)
        yield (tuple(order), notif, gaps, T)


# ------------------------------------------------------------------ stdio routing: two callers with registered per-request streams
def pending_two_callers(mode, swap):
    """two requests are outstanding on one stdio connection, each with its own registered stream; the first
    caller's stream is (mode 1) already closed when its late answer arrives.  The other caller - alive, but not
    suspended in receive() at that moment - still gets its own message (h_C05.routing_legacy_pending)"""
    from harness.h_C05 import routing_legacy_pending

    return routing_legacy_pending(("req", "resp") if swap else ("resp", "req"), mode, False)
