"""Shared harness for the request/response core (`send_message`) - used by C01,
C03, C07, C14, C18.  Stub world (virtual clock, scripted streams) and the
real-environment twin (real anyio on a virtual-time loop)."""
from __future__ import annotations

import sys
import uuid

from symcheck.env import (
    seam_check,
    ENV,
    POLL,
    HarnessError,
    RecordingWriteStream,
    ScriptedReadStream,
    drive,
    dump,
    install_clock,
    same_json,
)

install_clock()

import chuk_mcp.protocol.messages  # noqa: E402  (package re-exports shadow submodules)

SM = sys.modules["chuk_mcp.protocol.messages.send_message"]
JM = sys.modules["chuk_mcp.protocol.messages.json_rpc_message"]
ERR = sys.modules["chuk_mcp.protocol.types.errors"]
JSONRPCMessage = JM.JSONRPCMessage

_uuid_ctr = [0]
_real_uuid4 = uuid.uuid4


def fake_uuid4():
    _uuid_ctr[0] += 1
    return uuid.UUID(int=_uuid_ctr[0])


uuid.uuid4 = fake_uuid4

# ---------------------------------------------------------------- message kinds
K_RESULT, K_ERROR, K_SAMEID_REQ, K_OTHER_RESP, K_NOTIF, K_PROG_OK, K_PROG_BAD, K_BATCH, K_SAMEID_NOTIF_LIKE = range(9)
KIND_NAMES = {
    K_RESULT: "matching-result",
    K_ERROR: "matching-error",
    K_SAMEID_REQ: "same-id-server-request",
    K_OTHER_RESP: "other-id-response",
    K_NOTIF: "notification",
    K_PROG_OK: "progress-right-token",
    K_PROG_BAD: "progress-foreign-token",
    K_BATCH: "batch-with-matching-response",
}
ERR_CODE = -32603  # code used by the scripted matching error unless given


def build(kind, pos, req_id, token=None, code=ERR_CODE, prog=None):
    """The message object a transport would put on the read stream."""
    if kind == K_RESULT:
        return JSONRPCMessage(jsonrpc="2.0", id=req_id, result={"v": pos})
    if kind == K_ERROR:
        return JSONRPCMessage(jsonrpc="2.0", id=req_id, error={"code": code, "message": "E"})
    if kind == K_SAMEID_REQ:
        return JSONRPCMessage(jsonrpc="2.0", id=req_id, method="roots/list", params={"n": pos})
    if kind == K_OTHER_RESP:
        return JSONRPCMessage(jsonrpc="2.0", id="other-id", result={"other": pos})
    if kind == K_NOTIF:
        return JSONRPCMessage(jsonrpc="2.0", method="notifications/message", params={"n": pos})
    if kind == K_PROG_OK or kind == K_PROG_BAD:
        p = {"progressToken": token if kind == K_PROG_OK else "foreign-token"}
        if prog is None:
            p.update({"progress": pos + 1, "total": 10, "message": "m%d" % pos})
        else:
            p.update(prog)
        return JSONRPCMessage(jsonrpc="2.0", method="notifications/progress", params=p)
    if kind == K_BATCH:
        return [JSONRPCMessage(jsonrpc="2.0", id=req_id, result={"batch": pos})]
    raise HarnessError("kind %r" % (kind,))


class Outcome:
    __slots__ = ("kind", "value", "code", "text", "done", "wire", "first_rx_wire", "cb", "exc")

    def __init__(self):
        self.kind = None  # "result" | "timeout" | "retryable" | "nonretryable" | "cancelled" | "raised"
        self.value = None
        self.code = None
        self.text = None
        self.done = None
        self.wire = None
        self.first_rx_wire = None
        self.cb = None
        self.exc = None


def _etext(e):
    # str(exc) realises a symbolic message at the C level; the constructor argument is the same text
    a = getattr(e, "args", ())
    if len(a) >= 1 and isinstance(a[0], str):
        return a[0]
    return str(e)


def classify(out: Outcome, fn):
    """Run fn() and record how it ended."""
    try:
        out.value = fn()
        out.kind = "result"
    except TimeoutError:
        out.kind = "timeout"
    except SM.CancelledError:
        out.kind = "cancelled"
    except ERR.RetryableError as e:
        out.kind, out.code, out.text, out.exc = "retryable", e.code, _etext(e), e
    except ERR.NonRetryableError as e:
        out.kind, out.code, out.text, out.exc = "nonretryable", e.code, _etext(e), e
    except HarnessError:
        raise
    except Exception as e:
        seam_check(e)
        out.kind, out.text, out.exc = "raised", type(e).__name__, e
    return out


def run_stub(script, call, cancel_at=None, token=None):
    """script: [(tick, item)], call(read, write) -> coroutine."""
    _uuid_ctr[0] = 0
    ENV.reset(script, cancel_at, token)
    out = Outcome()
    classify(out, lambda: drive(call(ScriptedReadStream(), RecordingWriteStream())))
    out.done = ENV.tick
    out.wire = list(ENV.wire)
    out.first_rx_wire = ENV.first_receive_wire_len
    return out


def resolve_items(script, wire):
    res = []
    for t, it in script:
        res.append((t, it(wire) if callable(it) else it))
    return res


class LazyScript(list):
    """Script whose items may be callables of the wire recorded so far (responses
    that must quote the id a helper generated)."""


def run_real(script, call, T_ticks, cancel_at=None, token=None):
    """Same run on the real anyio with a virtual-time asyncio loop."""
    import anyio

    from symcheck import vloop
    from symcheck.env import TICKS_PER_SEC

    _uuid_ctr[0] = 0
    out = Outcome()
    wire = vloop.RealWire()

    async def main():
        send, recv = anyio.create_memory_object_stream(1000)

        async def feed():
            for pos, (t, it) in enumerate(script):
                await vloop.sleep_until_arrival(t, pos)
                await send.send(it(wire.items) if callable(it) else it)

        async def canceller():
            await vloop.sleep_until_cancel(cancel_at)
            token.cancel()

        async with anyio.create_task_group() as tg:
            tg.start_soon(feed)
            if cancel_at is not None and token is not None:
                tg.start_soon(canceller)

            async def body():
                return await call(RecvProxy(recv, wire, out), wire)

            res = []

            async def runner():
                try:
                    res.append(("ok", await body()))
                except BaseException as e:  # noqa
                    res.append(("exc", e))

            await runner()
            out.done = int(vloop.now_ticks())  # floor: the tick the completion instant lies in
            tg.cancel_scope.cancel()
        return res[0]

    status, val = vloop.run_virtual(main)

    def fn():
        if status == "exc":
            raise val
        return val

    classify(out, fn)
    out.wire = list(wire.items)
    return out


def abs_ticks(gaps):
    t, res = 0, []
    for g in gaps:
        t = t + g
        res.append(t)
    return res


class RecvProxy:
    """Records how much had been written when the first receive() started."""

    def __init__(self, inner, wire, out):
        self.inner, self.wire, self.out = inner, wire, out

    async def receive(self):
        if self.out.first_rx_wire is None:
            self.out.first_rx_wire = len(self.wire.items)
        return await self.inner.receive()

    async def aclose(self):
        pass
