"""C06 - stdio outbound framing: one message, one line, in order, content preserved."""
import importlib
import json as _json

from symcheck.env import drive, dump, same_json, HarnessError
from harness.stdio_fake import make_client, STDIO
from harness import sizes as _sizes

_sizes.size_cases(70000, extra=_sizes.ENV_SIZES)
_sizes.size_cases(140000, extra=_sizes.ENV_SIZES)

JM = importlib.import_module("chuk_mcp.protocol.messages.json_rpc_message")

CORPUS = ["plain", "line\nbreak", "cr\rlf\r\n", "sep  \u0085", "nul\x00\x1f", "quote\"\\/", "astral\U0001f600é", ""]


def pick_payload(i):
    if i == 0:
        return CORPUS[0]
    if i == 1:
        return CORPUS[1]
    if i == 2:
        return CORPUS[2]
    if i == 3:
        return CORPUS[3]
    if i == 4:
        return CORPUS[4]
    if i == 5:
        return CORPUS[5]
    if i == 6:
        return CORPUS[6]
    return CORPUS[7]


class _NoDump:
    pass


class _BadDump:
    method = "x"
    id = 1

    def model_dump_json(self, **kw):
        raise ValueError("cannot serialise")


class _DumpOnlyDict:
    """dump-only object whose dump is given (falsy but present members: id 0, empty result / params)"""

    def __init__(self, d):
        self.d = d
        self.method = d.get("method")
        self.id = d.get("id")

    def model_dump(self, **kw):
        return dict(self.d)


class _DumpOnly:
    """has model_dump but no model_dump_json (the slow path of the writer)"""

    method = "only/dump"
    id = None

    def __init__(self, s):
        self.s = s

    def model_dump(self, **kw):
        return {"jsonrpc": "2.0", "method": "only/dump", "params": {"s": self.s}}


PRETTY = '{\n  "jsonrpc": "2.0",\n  "method": "pre/serialised",\r\n  "params": {"k": [1,\n 2]}\n}'
K_REQ, K_NOTIF, K_DICT, K_RAW_COMPACT, K_RAW_PRETTY, K_UNSER_SET, K_NODUMP, K_BADDUMP, K_DUMPONLY, K_RESP, K_FALSY_TYPED, K_FALSY_DICT, K_FALSY_DUMPONLY, K_DICT_NUM, K_TYPED_NUM = range(15)


def item(kind, pos, s):
    """returns (object put on the write stream, expected decoded value or None if it must be dropped)"""
    if kind == K_REQ:
        m = JM.JSONRPCMessage(jsonrpc="2.0", id=pos, method="m", params={"s": s, "n": None})
        return m, {"jsonrpc": "2.0", "id": pos, "method": "m", "params": {"s": s, "n": None}}
    if kind == K_NOTIF:
        m = JM.create_notification("notifications/x", {"s": s})
        return m, {"jsonrpc": "2.0", "method": "notifications/x", "params": {"s": s}}
    if kind == K_DICT:
        d = {"jsonrpc": "2.0", "id": "d%d" % pos, "result": {"s": s, "deep": [None, {"k": s}]}}
        return d, d
    if kind == K_RAW_COMPACT:
        # already serialised by the caller, non-ASCII left raw (ensure_ascii=False), one line
        d = {"jsonrpc": "2.0", "id": pos, "method": "raw", "params": {"s": s}}
        return _json.dumps(d, ensure_ascii=False), d
    if kind == K_RAW_PRETTY:
        # pretty-printed by the caller (line breaks between tokens, CRLF in one place), payload raw inside the literals
        d = {"jsonrpc": "2.0", "id": pos, "method": "pre/serialised", "params": {"k": [1, 2], "s": s, "t": " " + s + " "}}
        txt = _json.dumps(d, indent=2, ensure_ascii=False).replace("[\n", "[\r\n", 1)
        return txt, d
    if kind == K_UNSER_SET:
        return {"jsonrpc": "2.0", "method": "bad", "params": {"s": {1, 2}, "f": lambda: 0}}, None
    if kind == K_NODUMP:
        return _NoDump(), None
    if kind == K_BADDUMP:
        return _BadDump(), None
    if kind == K_DUMPONLY:
        return _DumpOnly(s), {"jsonrpc": "2.0", "method": "only/dump", "params": {"s": s}}
    if kind == K_RESP:
        m = JM.create_error_response(pos, -32000, s, {"s": s})
        return m, {"jsonrpc": "2.0", "id": pos, "error": {"code": -32000, "message": s, "data": {"s": s}}}
    if kind in (K_DICT_NUM, K_TYPED_NUM):
        # numbers at the edges of the fast encoder's range (it falls back to the stdlib encoder beyond 64 bits)
        nums = {"i63": 2 ** 63, "u64": 2 ** 64 - 1, "big": 2 ** 70 + pos, "neg": -(2 ** 63), "f": 1e308, "z": -0.0, "tiny": 5e-324, "t": True}
        d = {"jsonrpc": "2.0", "id": 2 ** 63 + pos, "result": {"nums": nums, "list": [2 ** 64, None, 1.5]}}
        if kind == K_TYPED_NUM:
            return JM.JSONRPCMessage(**d), d
        return dict(d), d
    if kind in (K_FALSY_TYPED, K_FALSY_DICT, K_FALSY_DUMPONLY):
        # members that are present but falsy must survive: id 0, empty result, empty params, empty string, false
        variants = [
            {"jsonrpc": "2.0", "id": 0, "result": {}},
            {"jsonrpc": "2.0", "id": 0, "method": "m", "params": {}},
            {"jsonrpc": "2.0", "method": "notifications/x", "params": {"f": False, "z": 0, "e": "", "l": []}},
            {"jsonrpc": "2.0", "id": "", "result": {"s": s}},
        ]
        d = variants[(pos + len(s)) % 4] if kind != K_FALSY_TYPED else variants[(pos + len(s)) % 3]
        if kind == K_FALSY_TYPED:
            return JM.JSONRPCMessage(**d), d
        if kind == K_FALSY_DICT:
            return dict(d), d
        return _DumpOnlyDict(d), d
    raise HarnessError("kind")


class _Outgoing:
    def __init__(self, items):
        self.items = items

    def __aiter__(self):
        self.i = 0
        return self

    async def __anext__(self):
        if self.i >= len(self.items):
            raise StopAsyncIteration
        x = self.items[self.i]
        self.i += 1
        return x


def _run_writer(objs):
    c = make_client()
    c._outgoing_recv = _Outgoing(objs)
    drive(c._stdin_writer())
    return c


def writer(kinds, sels):
    """sequence of outbound items: kinds and payload selectors (decoded by if-chains)"""
    return writer_payloads(kinds, [pick_payload(x) for x in sels])


def writer_long(kind, k, pat, lim=70000):
    """size dimension: one message whose payload has c-1, c or c+1 characters (c: every integer constant of the
    source tree, plus environment sizes), followed by a small one (a cut line would glue them together)"""
    from harness.sizes import size_cases, pick, long_text, ENV_SIZES

    n = pick(size_cases(lim, extra=ENV_SIZES), k)
    return writer_payloads((kind, K_NOTIF), [long_text(n, pat), "after"])


def writer_payloads(kinds, payloads):
    objs, exps = [], []
    for i in range(len(kinds)):
        o, e = item(kinds[i], i, payloads[i])
        objs.append(o)
        if e is not None:
            exps.append(e)
    c = _run_writer(objs)
    data = b"".join(c.process.stdin.chunks)
    if c.process.stdin.closed != 1:
        return "stdin-not-closed-exactly-once"
    if data.count(b"\n") != len(exps):
        return "line-count-differs-from-accepted-messages"
    if len(exps) and not data.endswith(b"\n"):
        return "last-line-not-terminated"
    lines = data.split(b"\n")[:-1] if exps else []
    if not exps and data:
        return "output-for-dropped-messages"
    for k in range(len(exps)):
        try:
            txt = lines[k].decode("utf-8")
            got = _json.loads(txt)
        except Exception as e:
            return "line-not-utf8-json:" + type(e).__name__
        if not same_json(got, exps[k]):
            return "decoded-value-differs"
    return "ok"


def raw_symbolic(raw, before, after):
    """a pre-serialised string with arbitrary content between two ordinary messages: it occupies at most
    one line, never smuggles a line feed into the stream, and does not disturb its neighbours"""
    objs = []
    if before:
        objs.append({"jsonrpc": "2.0", "method": "a"})
    objs.append(raw)
    if after:
        objs.append({"jsonrpc": "2.0", "method": "b"})
    c = _run_writer(objs)
    chunks = c.process.stdin.chunks
    data = b"".join(chunks)
    n_other = (1 if before else 0) + (1 if after else 0)
    n = data.count(b"\n")
    if n != n_other and n != n_other + 1:
        return "raw-string-occupies-more-than-one-line"
    if len(data) and not data.endswith(b"\n"):
        return "last-line-not-terminated"
    lines = data.split(b"\n")[:-1]
    if before and lines[0] != b'{"jsonrpc":"2.0","method":"a"}' and lines[0] != b'{"jsonrpc": "2.0", "method": "a"}':
        return "neighbour-before-disturbed"
    if after and lines[-1] != b'{"jsonrpc":"2.0","method":"b"}' and lines[-1] != b'{"jsonrpc": "2.0", "method": "b"}':
        return "neighbour-after-disturbed"
    if "\n" not in raw and "\r" not in raw:
        if n != n_other + 1:
            return "single-line-raw-string-dropped"
        mine = lines[1 if before else 0]
        if mine != raw.encode("utf-8"):
            return "raw-string-content-changed"
    if c.process.stdin.closed != 1:
        return "stdin-not-closed-exactly-once"
    return "ok"


def stdin_failure(kinds_before):
    """the child's stdin breaking mid-stream must not raise out of the writer"""
    objs = [item(k, i, "x")[0] for i, k in enumerate(kinds_before)]
    c = make_client()
    c.process.stdin.fail = True
    c._outgoing_recv = _Outgoing(objs)
    try:
        drive(c._stdin_writer())
    except HarnessError:
        raise
    except Exception as e:
        return "writer-raised:" + type(e).__name__
    return "ok"


def writer_text(kind, i):
    """content corpus: the payload is the i-th 'active' text; a small message follows"""
    return writer_payloads((kind, K_NOTIF), [_sizes.pick_text(i), "after"])


def writer_raw_text(i, form):
    """a pre-serialised string built from the i-th text: (0) compact JSON, (1) with a trailing LF, (2) with a
    trailing CRLF, (3) with leading white space and a trailing space, (4) pretty-printed"""
    d = {"jsonrpc": "2.0", "id": 3, "method": "raw", "params": {"s": _sizes.pick_text(i)}}
    raw = _json.dumps(d, ensure_ascii=False) if form != 4 else _json.dumps(d, ensure_ascii=False, indent=1)
    if form == 1:
        raw += "\n"
    elif form == 2:
        raw += "\r\n"
    elif form == 3:
        raw = " \t" + raw + " "
    c = _run_writer([raw, {"jsonrpc": "2.0", "method": "after"}])
    data = b"".join(c.process.stdin.chunks)
    lines = data.split(b"\n")
    if lines[-1] != b"":
        return "last-line-not-terminated"
    lines = lines[:-1]
    if len(lines) != 2:
        return "pre-serialised-string-not-exactly-one-line:%d" % len(lines)
    if b"\r" in lines[0]:
        return "raw-carriage-return-inside-the-line"
    try:
        got = _json.loads(lines[0].decode("utf-8"))
    except Exception as e:
        return "line-not-utf8-json:" + type(e).__name__
    if not same_json(got, d):
        return "decoded-value-differs"
    return "ok"
