"""Size dimension shared by the harnesses: lengths / counts straddling every integer constant of the source tree
(symcheck/consts.py) and concrete fill patterns for long texts."""
from symcheck.consts import size_cases, pick, source_ints  # noqa: F401

for _lim in (12, 32, 62, 110, 210, 410, 1100, 70000, 140000):
    size_cases(_lim)  # scanned at import time (a scan inside a traced path would be repeated per path)

# sizes that come from the ENVIRONMENT rather than from the source: pipe buffer, default stream buffer sizes
ENV_SIZES = (4096, 8192, 65536, 131072)


BYTE_PATS = (6, 7, 8)


def long_text(n, pat):
    if n == 0:
        return ""
    if pat == 0:
        return "x" * n
    if pat == 1:
        return "é" * n                    # 2 bytes each in UTF-8
    if pat == 2:
        return "x" * (n - 1) + "é"        # a 2-byte character straddling byte n
    if pat == 3:
        return "€" + "x" * (n - 1)        # a 3-byte character first
    if pat == 4:
        return "\U0001F600" * n                # 4 bytes each, surrogate pairs in UTF-16
    if pat == 5:
        return ("ab漢" * (n // 3 + 1))[:n]     # mixed widths
    # patterns 6, 7, 8: for EVERY byte offset p >= 4 of the encoded text at least one of the three has p strictly
    # inside a multi-byte character (character boundaries mod 10: {0,1,3,6}, {2,3,5,8}, {0,4,5,7}) - a cut made
    # at a byte position, wherever a prefix moves it, splits a character in one of them
    base = "a\u00e9\u6f22\U0001F600"
    lead = "" if pat == 6 else ("\u00e9" if pat == 7 else "\U0001F600")
    return (lead + base * (n // 4 + 1))[:n]
