"""Size dimension shared by the harnesses: lengths / counts straddling every integer constant of the source tree
(symcheck/consts.py) and concrete fill patterns for long texts."""
from symcheck.consts import size_cases, pick  # noqa: F401

for _lim in (62, 110, 210, 410, 1100, 70000, 140000):
    size_cases(_lim)  # scanned at import time (a scan inside a traced path would be repeated per path)

# sizes that come from the ENVIRONMENT rather than from the source: pipe buffer, default stream buffer sizes
ENV_SIZES = (4096, 8192, 65536, 131072)


def long_text(n, pat):
    if n == 0:
        return ""
    if pat == 0:
        return "x" * n
    if pat == 1:
        return "é" * n                    # 2 bytes each in UTF-8
    if pat == 2:
        return "x" * (n - 1) + "é"        # a 2-byte character straddling byte n
    if pat == 3:
        return "€" + "x" * (n - 1)        # a 3-byte character first
    if pat == 4:
        return "\U0001F600" * n                # 4 bytes each, surrogate pairs in UTF-16
    return ("ab漢" * (n // 3 + 1))[:n]     # mixed widths
