"""Size dimension shared by the harnesses: lengths / counts straddling every integer constant of the source tree
(symcheck/consts.py) and concrete fill patterns for long texts."""
from symcheck.consts import size_cases, pick, source_ints  # noqa: F401

for _lim in (12, 32, 62, 110, 210, 410, 1100, 70000, 140000):
    size_cases(_lim)  # scanned at import time (a scan inside a traced path would be repeated per path)

# sizes that come from the ENVIRONMENT rather than from the source: pipe buffer, default stream buffer sizes
ENV_SIZES = (4096, 8192, 65536, 131072)


BYTE_PATS = (6, 7, 8)


def long_text(n, pat):
    if n == 0:
        return ""
    if pat == 0:
        return "x" * n
    if pat == 1:
        return "é" * n                    # 2 bytes each in UTF-8
    if pat == 2:
        return "x" * (n - 1) + "é"        # a 2-byte character straddling byte n
    if pat == 3:
        return "€" + "x" * (n - 1)        # a 3-byte character first
    if pat == 4:
        return "\U0001F600" * n                # 4 bytes each, surrogate pairs in UTF-16
    if pat == 5:
        return ("ab漢" * (n // 3 + 1))[:n]     # mixed widths
    # patterns 6, 7, 8: for EVERY byte offset p >= 4 of the encoded text at least one of the three has p strictly
    # inside a multi-byte character (character boundaries mod 10: {0,1,3,6}, {2,3,5,8}, {0,4,5,7}) - a cut made
    # at a byte position, wherever a prefix moves it, splits a character in one of them
    base = "a\u00e9\u6f22\U0001F600"
    lead = "" if pat == 6 else ("\u00e9" if pat == 7 else "\U0001F600")
    return (lead + base * (n // 4 + 1))[:n]


# ------------------------------------------------------------------ content corpus: text that is "active" somewhere
# Strings a peer may legitimately put into a name, message, id or payload and that mean something to SOME layer a
# careless implementation routes them through: %-templates, str.format templates, shell/template variables,
# escapes, line separators (str.splitlines splits on \x0b \x0c \x1c-\x1e \x85    ), BOM / zero-width
# characters, leading/trailing white space, JSON-looking and number-looking text, the names of JSON literals.
TEXTS = (
    "100% full", "%s and %d", "%(name)s", "50%% off", "{0} {x} {}", "{", "}}", "$HOME ${x} $(id)", "back\\slash \\n \\u0041",
    "tab\there", "line\nfeed", "carriage\rreturn", "ff\x0cvt\x0bfs\x1c", "\x00nul", " lead", "trail ", "\ttab-lead", "nbsp x",
    "quote\"s'`", "<b>&amp;</b>", "ls ps nel\u0085", "﻿bom", "zero​width", "é漢\U0001F600", "é vs é",
    "null", "None", "true", "False", "0", "-1", "007", "1e3", "0x10", "NaN", "[]", "{}", '{"jsonrpc":"2.0","id":1}', "[1, 2]",
    "a/b", "a.b", "../x", "a//b", "_meta", "$ref", "__class__", "file:///x?y=1#z", "UPPER", "MiXeD",
)


def pick_text(i):
    """the i-th entry as a concrete string (if-chain over a symbolic selector, rule R10)"""
    for j in range(len(TEXTS)):
        if i == j:
            return TEXTS[j]
    return TEXTS[-1]


N_TEXTS = len(TEXTS)
