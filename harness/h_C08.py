"""C08 - server dispatch: one response per request, none per notification, never a crash.
C04 - a library server never acknowledges a protocol version it does not support."""
import importlib
import logging

from symcheck.env import drive, dump, same_json, HarnessError

SRV = importlib.import_module("chuk_mcp.server.server")
PH = importlib.import_module("chuk_mcp.server.protocol_handler")
JM = importlib.import_module("chuk_mcp.protocol.messages.json_rpc_message")
MM = importlib.import_module("chuk_mcp.protocol.messages.message_method")
VER = importlib.import_module("chuk_mcp.protocol.types.versioning")
# the set of versions the library supports is PINNED when the harness is imported: the oracle must not follow a
# list that the code under test can change at run time, and every harness call starts from the pinned set
SUP0 = tuple(VER.SUPPORTED_VERSIONS)


def _reset_supported():
    if list(VER.SUPPORTED_VERSIONS) != list(SUP0):
        VER.SUPPORTED_VERSIONS[:] = list(SUP0)
JSONRPCMessage = JM.JSONRPCMessage
import harness.h_C19 as _h19  # noqa: E402  installs the time.time stub (integer instants) and the uuid4 counter for the session store

REQUEST_METHODS = ["initialize", "ping", "tools/list", "tools/call", "resources/list", "resources/read", "custom/ok", "custom/raise", "prompts/list"]
NOTIF_METHODS = [m.value for m in MM.MessageMethod if m.name.startswith("NOTIFICATION_")]


class _Obj:
    def __repr__(self):
        return "<obj>"


def exc_text(tsel):
    # exception texts a failing handler may carry (finite corpus, chosen by symbolic index)
    if tsel == 0:
        return "boom"
    if tsel == 1:
        return ""
    if tsel == 2:
        return "two\nlines"
    if tsel == 3:
        return "\n"
    if tsel == 4:
        return "caf\u00e9 \u2028 \x00"
    return "x" * 300


def _raise_kind(hsel, text):
    # exception classes a failing handler may raise (a lookup miss inside the handler is the interesting one:
    # it must not be mistaken for "unknown tool/resource")
    if hsel == 7:
        raise KeyError(text)
    if hsel == 8:
        raise IndexError(text)
    if hsel == 9:
        raise TypeError(text)
    if hsel == 10:
        raise LookupError(text)
    if hsel == 11:
        raise AttributeError(text)
    raise RuntimeError(text)


def make_server(hsel, text="boom"):
    _reset_supported()
    s = SRV.MCPServer("srv", "1.0")

    async def tool(**kw):
        if hsel == 0:
            return "text"
        if hsel == 1:
            return {"k": [1, None]}
        if hsel == 2:
            return ["a", {"b": 1}, 3]
        if hsel == 3:
            return None
        if hsel == 4:
            return _Obj()
        if hsel == 5:
            raise Exception("tool failed")
        if hsel == 6:
            raise ValueError(text)
        _raise_kind(hsel, text)

    async def res():
        if hsel == 5:
            raise Exception("resource failed")
        if hsel == 6:
            raise ValueError(text)
        if hsel >= 7:
            _raise_kind(hsel, text)
        if hsel == 3:
            return None
        return "content"

    async def custom_ok(message, session_id):
        return s.protocol_handler.create_response(message.id, {"ok": True}), None

    async def custom_raise(message, session_id):
        if hsel >= 7:
            _raise_kind(hsel, text)
        raise ValueError(text)

    s.register_tool("t", tool, {"type": "object"}, "a tool")
    s.register_resource("res://r", res, "r")
    s.protocol_handler.register_method("custom/ok", custom_ok)
    s.protocol_handler.register_method("custom/raise", custom_raise)
    s.protocol_handler.register_method("notifications/custom_fail", custom_raise)
    return s


def params_shape(psel, leaf):
    if psel == 0:
        return None
    if psel == 1:
        return {}
    if psel == 2:
        return {"name": leaf}
    if psel == 3:
        return {"name": "t", "arguments": None}
    if psel == 4:
        return {"name": ["x"]}
    if psel == 5:
        return {"uri": leaf}
    if psel == 6:
        return {"name": "t", "arguments": {"a": leaf}}
    if psel == 7:
        return {"uri": "res://r"}
    if psel == 8:
        return {"name": "t"}
    return {"protocolVersion": leaf, "clientInfo": {"name": leaf}, "capabilities": {}}


FORM = [0]  # 0: the unified JSONRPCMessage (what the parser produces); 1: the typed JSONRPCRequest / JSONRPCNotification


def _msg(method, has_id, rid, params):
    kw = {"jsonrpc": "2.0", "method": method}
    if has_id:
        kw["id"] = rid
    if params is not None:
        kw["params"] = params
    if FORM[0] == 1:
        return JM.JSONRPCRequest(**kw) if has_id else JM.JSONRPCNotification(**kw)
    return JSONRPCMessage(**kw)


def dispatch_typed(method, has_id, rid, psel, leaf, hsel, tsel):
    """the same dispatch for messages handed over as the typed request / notification classes"""
    FORM[0] = 1
    try:
        return dispatch(method, has_id, rid, psel, leaf, hsel, exc_text(tsel))
    finally:
        FORM[0] = 0


def _warm_up(s, warm):
    """`warm` earlier messages on the same server (requests of several methods and notifications): each request
    gets exactly one response bearing its id"""
    for i in range(warm):
        sel = i % 4
        if sel == 0:
            m, rid = JSONRPCMessage(jsonrpc="2.0", id=1000 + i, method="ping"), 1000 + i
        elif sel == 1:
            m, rid = JSONRPCMessage(jsonrpc="2.0", id="w%d" % i, method="tools/call", params={"name": "t", "arguments": {"a": "w"}}), "w%d" % i
        elif sel == 2:
            m, rid = JSONRPCMessage(jsonrpc="2.0", method="notifications/initialized"), None
        else:
            m, rid = JSONRPCMessage(jsonrpc="2.0", id=1000 + i, method="no/such"), 1000 + i
        out = drive(s.protocol_handler.handle_message(m, None))
        resp = out[0]
        if rid is None:
            if resp is not None:
                return "warm-up:response-to-notification"
        else:
            if resp is None or isinstance(resp, list) or not same_json(dump(resp).get("id"), rid):
                return "warm-up:not-exactly-one-response-with-the-id"
    return "ok"


def dispatch(method, has_id, rid, psel, leaf, hsel, text="boom", warm=0, before=()):
    s = make_server(hsel, text)
    params = params_shape(psel, leaf)
    if warm:
        r = _warm_up(s, warm)
        if r != "ok":
            return r
    for (bm, bhas, bid, bparams) in before:
        # an earlier message on the same server (its own outcome is judged by the obligations that send it last)
        try:
            drive(s.protocol_handler.handle_message(_msg(bm, bhas, bid, bparams), None))
        except HarnessError:
            raise
        except Exception as e:
            return "earlier-message-made-dispatch-raise:" + type(e).__name__
    try:
        msg = _msg(method, has_id, rid, params)
    except Exception:
        return "ok"  # not a well-formed incoming message: outside the property
    try:
        out = drive(s.protocol_handler.handle_message(msg, None))
    except HarnessError:
        raise
    except Exception as e:
        return "dispatch-raised:" + type(e).__name__
    if not isinstance(out, tuple) or len(out) != 2:
        return "dispatch-result-not-a-pair"
    resp = out[0]
    if not has_id:
        if resp is not None:
            return "response-to-notification"
        return "ok"
    if resp is None:
        return "no-response-to-request"
    if isinstance(resp, list):
        return "more-than-one-response"
    d = dump(resp)
    if d.get("jsonrpc") != "2.0":
        return "response-version"
    if "id" not in d or not same_json(d["id"], rid):
        return "response-id-differs"
    has_r, has_e = "result" in d, "error" in d
    if has_r == has_e:
        return "response-not-exactly-one-of-result-error"
    if "method" in d:
        return "response-has-method"
    if has_e:
        e = d["error"]
        if type(e.get("code")) is not int or not isinstance(e.get("message"), str):
            return "error-object-malformed"
    code = d["error"]["code"] if has_e else None
    # expected class per case
    if method not in REQUEST_METHODS[:8] and method != "notifications/initialized" and method != "notifications/custom_fail":
        return "ok" if code == -32601 else "unregistered-method-not-32601"
    if method in ("initialize", "ping", "tools/list", "resources/list", "custom/ok"):
        return "ok" if has_r else "core-method-returned-error"
    if method == "custom/raise" or method == "notifications/custom_fail":
        return "ok" if code == -32603 else "raising-handler-not-32603"
    if method == "tools/call":
        name = (params or {}).get("name")
        if not isinstance(name, str):
            return "ok" if code in (-32602, -32603) else "malformed-tool-name-not-an-error"
        if name != "t":
            return "ok" if code == -32602 else "unknown-tool-not-32602"
        args = (params or {}).get("arguments", {})
        if not isinstance(args, dict):
            return "ok" if (has_r or code in (-32602, -32603)) else "null-arguments"
        if hsel >= 5:
            return "ok" if code == -32603 else "raising-tool-not-32603"
        if not has_r:
            return "tool-result-became-error"
        c = d["result"].get("content") if isinstance(d["result"], dict) else None
        if not isinstance(c, list):
            return "tool-result-without-content-list"
        for it in c:
            if not isinstance(it, dict) or it.get("type") != "text" or not isinstance(it.get("text"), str):
                return "tool-content-item-malformed"
        return "ok"
    if method == "resources/read":
        uri = (params or {}).get("uri")
        if uri != "res://r":
            return "ok" if code in ((-32602,) if isinstance(uri, str) or uri is None else (-32602, -32603)) else "unknown-resource-not-32602"
        if hsel >= 5:
            return "ok" if code == -32603 else "raising-resource-not-32603"
        return "ok" if has_r else "resource-result-became-error"
    if method == "notifications/initialized":
        return "ok"  # a request (with id) to the initialized notification name: any single response
    return "ok"


def pick_method(i):
    if i == 0:
        return "initialize"
    if i == 1:
        return "ping"
    if i == 2:
        return "tools/list"
    if i == 3:
        return "tools/call"
    if i == 4:
        return "resources/list"
    if i == 5:
        return "resources/read"
    if i == 6:
        return "custom/ok"
    if i == 7:
        return "custom/raise"
    if i == 8:
        return "prompts/list"
    if i == 9:
        return "notifications/custom_fail"
    j = i - 10
    k = 0
    for m in NOTIF_METHODS:
        if j == k:
            return m
        k += 1
    return "notifications/unknown/zzz"


N_METHODS = 10 + len(NOTIF_METHODS) + 1


# ------------------------------------------------------------------ C04
def init_version(req_kind, v, sidx):
    """requested protocolVersion: req_kind 0 = the symbolic string v, 1 = supported[sidx], 2 = int, 3 = list, 4 = None, 5 = absent"""
    s = make_server(0)
    params = {"clientInfo": {"name": "c", "version": "1"}, "capabilities": {}}
    if req_kind == 0:
        requested = v
    elif req_kind == 1:
        requested = SUP0[0] if sidx == 0 else (SUP0[1] if sidx == 1 else SUP0[-1])
    elif req_kind == 2:
        requested = 20250618
    elif req_kind == 3:
        requested = ["2025-06-18"]
    else:
        requested = None
    if req_kind != 5:
        params["protocolVersion"] = requested
    msg = JSONRPCMessage(jsonrpc="2.0", id=1, method="initialize", params=params)
    try:
        resp, sid = drive(s.protocol_handler.handle_message(msg, None))
    except HarnessError:
        raise
    except Exception as e:
        return "initialize-raised:" + type(e).__name__
    if resp is None:
        return "no-response"
    d = dump(resp)
    if "error" in d:
        # refusing an unsupported/malformed request with an error is also 'not acknowledging'
        if req_kind == 1:
            return "supported-version-refused"
        return "ok"
    ans = (d.get("result") or {}).get("protocolVersion")
    sup = list(SUP0)
    if not isinstance(ans, str) or not _in(ans, sup):
        return "acknowledged-unsupported-version"
    req_supported = isinstance(requested, str) and _in(requested, sup)
    if req_supported and ans != requested:
        return "supported-request-answered-with-other-version"
    if sid is None:
        return "no-session"
    rec = s.protocol_handler.session_manager.get_session(sid)
    if rec is None or rec.protocol_version != ans:
        return "session-version-differs-from-answer"
    return "ok"


def _in(v, lst):
    for x in lst:
        if x == v:
            return True
    return False


def near_version(i, mode, k, c):
    """requested version within one edit of a supported one: mode 0 = append c, 1 = prepend c, 2 = substitute position k by c"""
    base = SUP0[0] if i == 0 else (SUP0[1] if i == 1 else SUP0[-1])
    if mode == 0:
        v = base + c
    elif mode == 1:
        v = c + base
    else:
        v = base[:k] + c + base[k + 1:]
    return init_version(0, v, 0)


def dispatch_exc(method, has_id, rid, psel, hsel, tsel):
    """failing handlers with every exception text of the corpus (incl. empty and multi-line)"""
    return dispatch(method, has_id, rid, psel, "x", hsel, exc_text(tsel))


def reinit(first_idx, v):
    """two handshakes on one handler: the second presents the session id issued by the first and requests v;
    the session the second handshake returns must record the version the second answer carries"""
    s = make_server(0)
    sup = list(SUP0)
    first = sup[0] if first_idx == 0 else (sup[1] if first_idx == 1 else sup[-1])

    def init(version, sid):
        msg = JSONRPCMessage(jsonrpc="2.0", id=1, method="initialize", params={"protocolVersion": version, "clientInfo": {"name": "c", "version": "1"}, "capabilities": {}})
        return drive(s.protocol_handler.handle_message(msg, sid))

    r1, sid1 = init(first, None)
    if r1 is None or sid1 is None:
        return "first-handshake-failed"
    r2, sid2 = init(v, sid1)
    if r2 is None:
        return "no-response"
    d = dump(r2)
    if "error" in d:
        return "ok"
    ans = (d.get("result") or {}).get("protocolVersion")
    if not _in(ans, sup):
        return "acknowledged-unsupported-version"
    if _in(v, sup) and ans != v:
        return "supported-request-answered-with-other-version"
    if sid2 is None:
        return "no-session"
    rec = s.protocol_handler.session_manager.get_session(sid2)
    if rec is None or rec.protocol_version != ans:
        return "session-version-differs-from-answer"
    return "ok"


def dispatch_session(mi, has_id, rid, sessmode, age, max_idle):
    """the same dispatch with a session id presented: none / live / unknown / a session idle for `age` seconds
    (arbitrarily long).  Bookkeeping must never make dispatch raise or lose the response."""
    from harness.h_C19 import CLOCK, BASE as _B

    s = make_server(0)
    mgr = s.protocol_handler.session_manager
    sid = None
    now = 1000 + age
    if sessmode == 1 or sessmode == 3:
        mgr.sessions["sess-x"] = _B.SessionInfo(session_id="sess-x", client_info={}, protocol_version="2025-03-26",
                                                created_at=1000, last_activity=1000, metadata={})
        sid = "sess-x"
        if sessmode == 3:
            mgr.sessions["sess-y"] = _B.SessionInfo(session_id="sess-y", client_info={}, protocol_version="2025-03-26",
                                                    created_at=0, last_activity=0, metadata={})
    elif sessmode == 2:
        sid = "sess-unknown"
    CLOCK.set([now, now])
    method = pick_method(mi)
    try:
        msg = _msg(method, has_id, rid, None)
    except Exception:
        return "ok"
    try:
        out = drive(s.protocol_handler.handle_message(msg, sid))
    except HarnessError:
        raise
    except Exception as e:
        return "dispatch-raised:" + type(e).__name__
    if has_id and (not isinstance(out, tuple) or out[0] is None):
        return "no-response-to-request"
    if not has_id and isinstance(out, tuple) and out[0] is not None:
        return "response-to-notification"
    return "ok"


# ------------------------------------------------------------------ size / count dimension
from harness import sizes as _sizes  # noqa: E402

_sizes.size_cases(70000, extra=_sizes.ENV_SIZES)


def dispatch_nth(mi, has_id, k, hsel, lim=410):
    """the (n+1)-th message handled by one server, n = c-1, c, c+1 for the integer constants c of the source"""
    n = _sizes.pick(_sizes.size_cases(lim), k)
    m = pick_method(mi)
    psel = 6 if m == "tools/call" else (7 if m == "resources/read" else (9 if m == "initialize" else 0))
    return dispatch(m, has_id, 7, psel, "2025-03-26" if m == "initialize" else "v", hsel, "boom", warm=n)


def dispatch_long(mi, k, pat, where, hsel):
    """a string of c-1, c, c+1 characters as (0) the request id, (1) a tool argument, (2) the tool name / uri,
    (3) the method name, (4) the text of the handler's exception"""
    text = _sizes.long_text(_sizes.pick(_sizes.size_cases(70000, extra=_sizes.ENV_SIZES), k), pat)
    m = pick_method(mi)
    if where == 0:
        if text == "":
            return "ok"
        psel = 6 if m == "tools/call" else (7 if m == "resources/read" else 0)
        return dispatch(m, True, text, psel, "v", hsel)
    if where == 1:
        return dispatch("tools/call", True, 7, 6, text, hsel)
    if where == 2:
        return dispatch("tools/call" if mi % 2 == 0 else "resources/read", True, 7, 2 if mi % 2 == 0 else 5, text + "?", hsel)
    if where == 3:
        return dispatch("x/" + text, True, 7, 0, "v", hsel)
    return dispatch(m, True, 7, 6 if m == "tools/call" else (7 if m == "resources/read" else 0), "v", hsel, text)


def init_long(k, form, sidx):
    """requested protocolVersion = a supported version (0) followed by, (1) preceded by, (2) split in the middle by
    n characters, or (3) n characters of digits and dashes; n = c-1, c, c+1.  n = 0 requests the supported version"""
    n = _sizes.pick(_sizes.size_cases(70000, extra=_sizes.ENV_SIZES), k)
    sv = SUP0[0] if sidx == 0 else (SUP0[1] if sidx == 1 else SUP0[-1])
    pad = "x" * n
    if form == 0:
        v = sv + pad
    elif form == 1:
        v = pad + sv
    elif form == 2:
        v = sv[:5] + pad + sv[5:]
    else:
        v = ("2025-06-18" * (n // 10 + 1))[:n]
    return init_version(0, v, 0)


def init_nth(k, sidx, v_unsupported, lim=410):
    """the (n+1)-th initialize on one server (n earlier handshakes at supported versions): answered like the first"""
    n = _sizes.pick(_sizes.size_cases(lim), k)
    s = make_server(0)
    sup = list(SUP0)
    for i in range(n):
        m = JSONRPCMessage(jsonrpc="2.0", id=i, method="initialize", params={"protocolVersion": sup[i % len(sup)], "clientInfo": {"name": "c%d" % i, "version": "1"}, "capabilities": {}})
        resp, sid = drive(s.protocol_handler.handle_message(m, None))
        d = dump(resp) if resp is not None else {}
        if (d.get("result") or {}).get("protocolVersion") != sup[i % len(sup)]:
            return "earlier-handshake-not-acknowledged-at-its-version"
    want = (sup[0] if sidx == 0 else (sup[1] if sidx == 1 else sup[-1])) if not v_unsupported else "1999-01-01"
    m = JSONRPCMessage(jsonrpc="2.0", id="last", method="initialize", params={"protocolVersion": want, "clientInfo": {"name": "last", "version": "1"}, "capabilities": {}})
    resp, sid = drive(s.protocol_handler.handle_message(m, None))
    if resp is None:
        return "no-response"
    d = dump(resp)
    if "error" in d:
        return "supported-version-refused" if not v_unsupported else "ok"
    ans = (d.get("result") or {}).get("protocolVersion")
    if not isinstance(ans, str) or not _in(ans, sup):
        return "acknowledged-unsupported-version"
    if not v_unsupported and ans != want:
        return "supported-request-answered-with-other-version"
    rec = s.protocol_handler.session_manager.get_session(sid) if sid is not None else None
    if rec is None or rec.protocol_version != ans:
        return "session-version-differs-from-answer"
    if s.protocol_handler.session_manager.get_session_count() != n + 1:
        return "sessions-lost-or-duplicated"
    return "ok"


def init_twice(v, other_server, third):
    """the same (arbitrary) version is requested two or three times, on one server or on a second server of the
    same process: every answer must be a supported version - a refusal remembered from the first request must not
    turn into an acknowledgement later"""
    s = make_server(0)
    servers = [s, (make_server(0) if other_server else s)]
    # (make_server resets the library's supported list: build both before the first request)
    n = 3 if third else 2
    for j in range(n):
        srv = servers[min(j, 1)]
        m = JSONRPCMessage(jsonrpc="2.0", id=j, method="initialize", params={"protocolVersion": v, "clientInfo": {"name": "c", "version": "1"}, "capabilities": {}})
        try:
            resp, sid = drive(srv.protocol_handler.handle_message(m, None))
        except HarnessError:
            raise
        except Exception as e:
            return "initialize-raised:" + type(e).__name__
        if resp is None:
            return "no-response"
        d = dump(resp)
        if "error" in d:
            if _in(v, list(SUP0)):
                return "supported-version-refused"
            continue
        ans = (d.get("result") or {}).get("protocolVersion")
        if not isinstance(ans, str) or not _in(ans, list(SUP0)):
            return "acknowledged-unsupported-version:request-%d" % (j + 1)
        if _in(v, list(SUP0)) and ans != v:
            return "supported-request-answered-with-other-version"
        rec = srv.protocol_handler.session_manager.get_session(sid) if sid is not None else None
        if rec is None or rec.protocol_version != ans:
            return "session-version-differs-from-answer"
    return "ok"


def dispatch_text(mi, i, where, hsel, has_id):
    """content corpus: the i-th 'active' text as (0) the request id, (1) a tool argument, (2) the tool name / uri,
    (3) the method name (whole), (4) the text of the handler's exception, (5) the method name with the text appended
    to a registered name"""
    text = _sizes.pick_text(i)
    m = pick_method(mi)
    if where == 0:
        if text == "":
            return "ok"
        psel = 6 if m == "tools/call" else (7 if m == "resources/read" else 0)
        return dispatch(m, True, text, psel, "v", hsel)
    rid = 7 if has_id else None
    if where == 1:
        return dispatch("tools/call", has_id, rid, 6, text, hsel)
    if where == 2:
        return dispatch("tools/call" if mi % 2 == 0 else "resources/read", has_id, rid, 2 if mi % 2 == 0 else 5, text, hsel)
    if where == 3:
        if text in REQUEST_METHODS or text.startswith("notifications/"):
            return "ok"
        return dispatch(text, has_id, rid, 0, "v", hsel)
    if where == 5:
        return dispatch(m + text, has_id, rid, 0, "v", hsel)
    return dispatch(m, has_id, rid, 6 if m == "tools/call" else (7 if m == "resources/read" else 0), "v", hsel, text)


def dispatch_after(mi, has_id, rid, ev, hsel, psel):
    """the message is handled by a server that has seen an EARLIER message: (0) the same method as a notification,
    (1) the same method as a request with another id, (2) a request whose handler raised, (3) a notification whose
    handler raised, (4) an unregistered method as notification, (5) the same request id used before, (6) a
    malformed tools/call, (7) initialize"""
    m = pick_method(mi)
    params = params_shape(psel, "v")
    if ev == 0:
        before = [(m, False, None, params)]
    elif ev == 1:
        before = [(m, True, "earlier", params)]
    elif ev == 2:
        before = [("custom/raise", True, "e1", None)]
    elif ev == 3:
        before = [("notifications/custom_fail", False, None, None)]
    elif ev == 4:
        before = [("no/such", False, None, None), (m + "x", False, None, None)]
    elif ev == 5:
        before = [("ping", True, rid, None)]
    elif ev == 6:
        before = [("tools/call", True, "t1", {"name": ["x"]}), ("tools/call", True, "t2", {"name": "nope"})]
    else:
        before = [("initialize", True, "i1", params_shape(9, "2025-03-26"))]
    return dispatch(m, has_id, rid, psel, "v", hsel, "boom", 0, before)
