"""C03 - client initialization never settles on a protocol version it did not offer."""
from harness.sm import *  # noqa
from symcheck.env import Ticks  # noqa
from harness import sm
import importlib

INIT = sys.modules["chuk_mcp.protocol.messages.initialize.send_messages"]
BATCH = importlib.import_module("chuk_mcp.protocol.features.batching")
STDIO = importlib.import_module("chuk_mcp.transports.stdio.stdio_client")
PARAMS = importlib.import_module("chuk_mcp.transports.stdio.parameters")
VER = importlib.import_module("chuk_mcp.protocol.types.versioning")

A_OK, A_NONSTR, A_NO_SERVERINFO, A_NO_CAPS, A_ERROR, A_ERROR_VERSION_TEXT, A_SILENCE = range(7)
REAL = ["2025-06-18", "2025-03-26", "2024-11-05"]
UNIVERSE = REAL + ["2026-01-01", "2025-06-17", "1999-12-31"]


def pick(i):
    # R10: decode selectors with if-chains
    if i == 0:
        return UNIVERSE[0]
    if i == 1:
        return UNIVERSE[1]
    if i == 2:
        return UNIVERSE[2]
    if i == 3:
        return UNIVERSE[3]
    if i == 4:
        return UNIVERSE[4]
    if i == 5:
        return UNIVERSE[5]
    # answers that merely CONTAIN or are CONTAINED IN an offered version (never offered themselves)
    if i == 6:
        return "2025-06-18-draft"
    if i == 7:
        return "2025-03-2"
    if i == 8:
        return "v2024-11-05"
    return "2025-06-18\n"


def version_text(i):
    # ways a server words its rejection of the protocol version (code -32602)
    if i == 0:
        return "Unsupported protocol version"
    if i == 1:
        return "1 validation error for InitializeRequestParams\nprotocolVersion\n  Unsupported protocol version '2099-01-01' [type=value_error]"
    if i == 2:
        return "\nInvalid params:\n\n  unsupported PROTOCOL VERSION"
    if i == 3:
        return "Bad request. " * 20 + "The requested Protocol Version is not available."
    return "protocol version"


class _Ans:
    def __init__(self, kind, ans, code):
        self.kind, self.ans, self.code = kind, ans, code


class _Script(list):
    def __getitem__(self, n):
        t, it = list.__getitem__(self, n)
        if isinstance(it, _Ans):
            rid = dump(ENV.wire[0][1])["id"]
            it = _answer(it, rid)
        return (t, it)


def _answer(a, rid):
    full = {"protocolVersion": a.ans, "capabilities": {}, "serverInfo": {"name": "s", "version": "1"}}
    if a.kind == A_OK:
        return JSONRPCMessage(jsonrpc="2.0", id=rid, result=full)
    if a.kind == A_NONSTR:
        full["protocolVersion"] = [a.ans]
        return JSONRPCMessage(jsonrpc="2.0", id=rid, result=full)
    if a.kind == A_NO_SERVERINFO:
        del full["serverInfo"]
        return JSONRPCMessage(jsonrpc="2.0", id=rid, result=full)
    if a.kind == A_NO_CAPS:
        del full["capabilities"]
        return JSONRPCMessage(jsonrpc="2.0", id=rid, result=full)
    if a.kind == A_ERROR:
        return JSONRPCMessage(jsonrpc="2.0", id=rid, error={"code": a.code, "message": "E"})
    if a.kind == A_ERROR_VERSION_TEXT:
        return JSONRPCMessage(jsonrpc="2.0", id=rid, error={"code": -32602, "message": version_text(a.code)})
    raise HarnessError("answer kind")


def _mk_client():
    return STDIO.StdioClient(PARAMS.StdioParameters(command="x", args=[]))


def nego(supported, pref, kind, ans, code, distractor, gaps, T, tracked=True):
    """supported: concrete-length list of (symbolic) version strings; pref: str or None."""
    ts = abs_ticks(gaps)
    items = []
    i = 0
    if distractor:
        items.append((ts[i], build(K_NOTIF, 0, "x")))
        i += 1
    if kind != A_SILENCE:
        items.append((ts[i], _Ans(kind, ans, code)))
    sup_arg = list(supported)
    client = _mk_client() if tracked else None
    if tracked:
        call = lambda r, w: INIT.send_initialize_with_client_tracking(r, w, client=client, timeout=Ticks(T), supported_versions=sup_arg, preferred_version=pref)
    else:
        call = lambda r, w: INIT.send_initialize(r, w, timeout=Ticks(T), supported_versions=sup_arg, preferred_version=pref)
    out = run_stub(_Script(items), call)
    return _judge(out, supported, pref, kind, ans, code, ts[-1] if (kind != A_SILENCE and len(ts)) else None, T, client)


def _in(v, lst):
    for x in lst:
        if x == v:
            return True
    return False


def _judge(out, supported, pref, kind, ans, code, t_ans, T, client):
    wire = [dump(m) for _, m in out.wire]
    if len(wire) < 1 or wire[0].get("method") != "initialize" or "id" not in wire[0]:
        return "wire:first-message-not-initialize"
    p = wire[0].get("params") or {}
    proposal = pref if (pref is not None and _in(pref, supported)) else supported[0]
    if p.get("protocolVersion") != proposal:
        return "wrong-proposal"
    if "capabilities" not in p or "clientInfo" not in p:
        return "initialize-params-incomplete"
    inits = [w for w in wire[1:] if w.get("method") == "notifications/initialized"]
    if len(wire) != 1 + len(inits):
        return "wire:unexpected-message"
    if list(supported) != list(supported):
        return "supported-list-mutated"
    arrived = kind != A_SILENCE and t_ans is not None and t_ans < T
    if out.done > T:
        return "ended-after-deadline"
    if not arrived:
        if out.kind != "timeout":
            return "no-answer-but-not-timeout:" + str(out.kind)
        if inits:
            return "initialized-sent-without-answer"
        return "ok"
    success = kind == A_OK and _in(ans, supported)
    if success:
        if out.kind != "result":
            return "acceptable-answer-rejected:" + str(out.kind) + ":" + str(out.text)
        if getattr(out.value, "protocolVersion", None) != ans:
            return "returned-version-is-not-the-server-answer"
        if len(inits) != 1:
            return "not-exactly-one-initialized"
        if "id" in inits[0]:
            return "initialized-has-id"
        if client is not None:
            bp = client.batch_processor
            if bp.protocol_version != ans:
                return "tracked-version-is-not-the-answer"
            if bp.batching_enabled != BATCH.supports_batching(ans):
                return "tracked-batching-mode-wrong"
        return "ok"
    # every other case must fail and must not complete the handshake
    if inits:
        return "initialized-sent-although-not-accepted"
    if out.kind == "result":
        return "settled-on-version-not-offered"
    if client is not None and client.batch_processor.protocol_version is not None:
        return "tracked-version-set-on-failure"
    if kind == A_OK or kind == A_ERROR_VERSION_TEXT:
        if not (out.kind == "raised" and out.text == "VersionMismatchError"):
            return "expected-version-mismatch:got-" + str(out.kind) + ":" + str(out.text)
    elif kind == A_ERROR:
        want = "nonretryable" if code in REF_NON_RETRYABLE else "retryable"
        if out.kind != want or out.code != code:
            return "expected-classified-error:got-" + str(out.kind)
    else:
        if out.kind not in ("raised", "retryable", "nonretryable"):
            return "malformed-answer-not-an-error:" + str(out.kind)
    return "ok"


from harness.h_C01 import REF_NON_RETRYABLE  # noqa: E402


# selector (Pydantic) variants: versions by index into the universe of real + invented dates
def nego_sel(sup_idx, pref_idx, kind, ans_idx, code, distractor, gaps, T):
    supported = [pick(i) for i in sup_idx]
    pref = None if pref_idx < 0 else pick(pref_idx)
    return nego(supported, pref, kind, pick(ans_idx), code, distractor, gaps, T)


def nego_real(supported, pref, kind, ans, code, distractor, gaps, T):
    """same on the real anyio with a virtual-time loop"""
    from symcheck.env import TICKS_PER_SEC

    ts = abs_ticks(gaps)
    script = []
    i = 0
    if distractor:
        script.append((ts[i], build(K_NOTIF, 0, "x")))
        i += 1
    if kind != A_SILENCE:
        a = _Ans(kind, ans, code)
        script.append((ts[i], lambda w: _answer(a, dump(w[0][1])["id"])))
    client = _mk_client()
    out = sm.run_real(script, lambda r, w: INIT.send_initialize_with_client_tracking(
        r, w, client=client, timeout=T / TICKS_PER_SEC, supported_versions=list(supported), preferred_version=pref), T)
    return _judge(out, supported, pref, kind, ans, code, ts[-1] if (kind != A_SILENCE and len(ts)) else None, T, client)


def nego_sel_real(sup_idx, pref_idx, kind, ans_idx, code, distractor, gaps, T):
    supported = [pick(i) for i in sup_idx]
    pref = None if pref_idx < 0 else pick(pref_idx)
    return nego_real(supported, pref, kind, pick(ans_idx), code, distractor, gaps, T)


# ------------------------------------------------------------------ size / count dimension
from harness import sizes as _sizes  # noqa: E402

_sizes.size_cases(70000, extra=_sizes.ENV_SIZES)


def nego_long(k, form, lim=70000):
    """(0) answer = an offered version followed by n characters; (1) preceded by n characters; (2) an offered
    version of its own that is n characters longer than a real one, answered exactly; (3) the same, but the server
    answers the real (shorter, un-offered) one; (4) answer offered, preferred version n characters long and not in
    the list.  n = c-1, c, c+1 for the integer constants c of the source"""
    n = _sizes.pick(_sizes.size_cases(lim, extra=_sizes.ENV_SIZES), k)
    a, b = REAL[0], REAL[1]
    pad = "x" * n
    if form == 0:
        return nego([a, b], None, A_OK, b + pad, 0, False, [1], 100)
    if form == 1:
        return nego([a, b], None, A_OK, pad + b, 0, False, [1], 100)
    if form == 2:
        return nego([a, b + "-" + pad], b + "-" + pad, A_OK, b + "-" + pad, 0, False, [1], 100)
    if form == 3:
        return nego([a, b + "-" + pad], None, A_OK, b, 0, False, [1], 100)
    return nego([a, b], "9" + pad, A_OK, b, 0, False, [1], 100)


def nego_many(k, ans_where, pref_where, lim=410):
    """supported list of n invented versions (n = c-1, c, c+1) plus one real one at the end; the answer / the
    preferred version is the first, the middle, the last entry or a version that is not in the list"""
    n = _sizes.pick(_sizes.size_cases(lim), k)
    sup = ["v%05d" % i for i in range(n)] + [REAL[0]]

    def at(w):
        if w == 0:
            return sup[0]
        if w == 1:
            return sup[len(sup) // 2]
        if w == 2:
            return sup[-1]
        return "v-not-listed"

    return nego(sup, (at(pref_where) if pref_where >= 0 else None), A_OK, at(ans_where), 0, False, [1], 100)


def nego_affix(c, where, sidx):
    """the server answers an OFFERED version with a symbolic affix: (0) appended, (1) prepended, (2) inserted after
    the year; whatever the characters are, a non-empty affix makes an answer that was not offered"""
    a, b = REAL[0], REAL[1]
    base = b if sidx else a
    if where == 0:
        ans = base + c
    elif where == 1:
        ans = c + base
    else:
        ans = base[:4] + c + base[4:]
    return nego([a, b], None, A_OK, ans, 0, False, [1], 100)


# ------------------------------------------------------------------ a second handshake on the same streams
class _AnsLast(_Ans):
    """answers the most recent initialize request on the wire"""


class _Script2(list):
    def __getitem__(self, n):
        t, it = list.__getitem__(self, n)
        if isinstance(it, _Ans):
            rid = None
            for _tk, m in ENV.wire:
                d = dump(m)
                if d.get("method") == "initialize":
                    rid = d["id"]
            it = _answer(it, rid)
        return (t, it)


def renego(first_ok, sup1_sel, ans1_sel, sup2_sel, ans2_sel, tracked):
    """handshake 1 (supported list 1, server answers ans1), then handshake 2 on the SAME streams (and the same tracked
    client) with supported list 2 and answer ans2: the second one is judged by its own list only - whatever the
    first one settled on or failed with"""
    def lst(sel):
        a, b, c = REAL[0], REAL[1], REAL[2]
        if sel == 0:
            return [a, b]
        if sel == 1:
            return [a]
        if sel == 2:
            return [b, c]
        if sel == 3:
            return [c]
        return [b]

    def ver(sel):
        if sel == 0:
            return REAL[0]
        if sel == 1:
            return REAL[1]
        if sel == 2:
            return REAL[2]
        return "1999-12-31"

    sup1, sup2 = lst(sup1_sel), lst(sup2_sel)
    ans1, ans2 = ver(ans1_sel), ver(ans2_sel)
    client = _mk_client() if tracked else None
    items = [(1, _Ans(A_OK if first_ok else A_ERROR, ans1, -32603)), (50, _Ans(A_OK, ans2, 0))]

    async def both(r, w):
        res = {}
        for j, sup in ((1, sup1), (2, sup2)):
            try:
                if tracked:
                    v = await INIT.send_initialize_with_client_tracking(r, w, client=client, timeout=Ticks(100), supported_versions=list(sup), preferred_version=None)
                else:
                    v = await INIT.send_initialize(r, w, timeout=Ticks(100), supported_versions=list(sup), preferred_version=None)
                res[j] = ("result", getattr(v, "protocolVersion", None))
            except HarnessError:
                raise
            except Exception as e:
                res[j] = ("raised", type(e).__name__)
            res["wire%d" % j] = len(ENV.wire)
        return res

    out = run_stub(_Script2(items), both)
    if out.kind != "result":
        return "handshakes-ended-otherwise:" + str(out.kind) + ":" + str(out.text)
    res = out.value
    wire = [dump(m) for _, m in out.wire]
    w2 = wire[res["wire1"]:]
    if not w2 or w2[0].get("method") != "initialize" or (w2[0].get("params") or {}).get("protocolVersion") != sup2[0]:
        return "second-handshake:wrong-proposal"
    inits2 = [w for w in w2[1:] if w.get("method") == "notifications/initialized"]
    k2, v2 = res[2]
    if _in(ans2, sup2):
        if k2 != "result" or v2 != ans2:
            return "second-handshake:acceptable-answer-rejected:" + str(k2) + ":" + str(v2)
        if len(inits2) != 1:
            return "second-handshake:not-exactly-one-initialized"
        if tracked and client.batch_processor.protocol_version != ans2:
            return "second-handshake:tracked-version-is-not-the-answer"
    else:
        if k2 == "result":
            return "second-handshake:settled-on-version-not-offered"
        if inits2:
            return "second-handshake:initialized-sent-although-not-accepted"
        if not (k2 == "raised" and v2 == "VersionMismatchError"):
            return "second-handshake:expected-version-mismatch:got-" + str(v2)
    return "ok"
