"""C04 - a library server never acknowledges a protocol version it does not support."""
from harness.sm import *  # noqa
from harness import sm
from harness.h_C08 import init_version, near_version, reinit, make_server, VER, _in, init_long, init_nth, init_twice, SUP0  # noqa
import importlib

INIT = sys.modules["chuk_mcp.protocol.messages.initialize.send_messages"]


class _PipeRead:
    """receive() answers the last written request by calling the real server handler"""

    def __init__(self, server, wire):
        self.server, self.wire, self.answered = server, wire, 0

    async def receive(self):
        while self.answered < len(self.wire):
            m = self.wire[self.answered]
            self.answered += 1
            resp, _sid = await self.server.protocol_handler.handle_message(m, None)
            if resp is not None:
                d = dump(resp)
                return JSONRPCMessage(**d)
        raise TimeoutError()  # nothing more will ever arrive: the client's deadline

    async def aclose(self):
        pass


class _PipeWrite:
    def __init__(self, wire):
        self.wire = wire

    async def send(self, item):
        # the client writes typed messages; the server side receives the unified type
        self.wire.append(JSONRPCMessage(**dump(item)))


def pairing(supported, pref):
    """library client against library server: ends agreed on a common version or with VersionMismatchError"""
    s = make_server(0)
    wire = []
    out = Outcome()
    classify(out, lambda: drive(INIT.send_initialize(_PipeRead(s, wire), _PipeWrite(wire), timeout=5, supported_versions=list(supported), preferred_version=pref)))
    sup_srv = list(SUP0)
    sessions = s.protocol_handler.session_manager.list_sessions()
    if out.kind == "result":
        v = out.value.protocolVersion
        if not _in(v, supported):
            return "client-settled-on-version-it-did-not-offer"
        if not _in(v, sup_srv):
            return "agreed-on-version-the-server-does-not-support"
        if len(sessions) != 1:
            return "not-exactly-one-session"
        for rec in sessions.values():
            if rec.protocol_version != v:
                return "session-version-differs-from-agreed"
        inits = [m for m in wire if getattr(m, "method", None) == "notifications/initialized"]
        if len(inits) != 1:
            return "not-exactly-one-initialized"
        return "ok"
    if out.kind == "raised" and out.text == "VersionMismatchError":
        # legitimate only if the server could not have agreed: its answer is not in the client's list
        return "ok"
    return "handshake-ended-otherwise:" + str(out.kind) + ":" + str(out.text)

import harness.h_C03 as H3  # noqa: E402  (universe of real + invented dates)
