"""C11 - Streamable HTTP: exactly one terminal message per request, whatever the server."""
import asyncio
import importlib
import json as _json

from symcheck.env import drive, dump, same_json, HarnessError, need
from harness.stdio_fake import Rec
from harness.h_C02 import grammar

HTTP = importlib.import_module("chuk_mcp.transports.http.transport")
HPARAMS = importlib.import_module("chuk_mcp.transports.http.parameters")
import httpx as _httpx


# ------------------------------------------------------------------ FakeHttpx
class _Headers(dict):
    """case-insensitive header mapping (a real dict subclass: CrossHair's dict() model rejects mapping look-alikes,
    and the transport's broad `except Exception` would swallow that - DESIGN rule R6)"""

    def __init__(self, d):
        super().__init__({k.lower(): v for k, v in d.items()})

    def __contains__(self, k):
        return super().__contains__(k.lower())

    def __getitem__(self, k):
        return super().__getitem__(k.lower())

    def get(self, k, default=None):
        return super().get(k.lower(), default)


class FakeResponse:
    def __init__(self, status, headers, content):
        self.status_code = status
        self.headers = _Headers(headers)
        self.content = content

    @property
    def text(self):
        return self.content.decode("utf-8", "replace")  # httpx: undecodable bytes are replaced

    def json(self):
        return _json.loads(self.content)


class _World:
    plan = []  # per POST: ("resp", FakeResponse) | ("raise", exc)
    posts = []


W = _World()


class FakeAsyncClient:
    def __init__(self, *a, **k):
        pass

    async def __aenter__(self):
        return self

    async def __aexit__(self, *a):
        return False

    async def post(self, url, json=None, headers=None, **kw):
        i = len(W.posts)
        W.posts.append({"json": json, "headers": dict(headers or {})})
        if i >= len(W.plan):
            raise HarnessError("more POSTs than planned")
        kind, val = W.plan[i]
        if kind == "raise":
            raise val
        return val


class _FakeHttpxModule:
    AsyncClient = FakeAsyncClient
    Timeout = staticmethod(lambda *a, **k: None)
    Response = FakeResponse

    def __getattr__(self, n):
        return getattr(_httpx, n)


HTTP.httpx = _FakeHttpxModule()


def make_transport():
    t = HTTP.StreamableHTTPTransport(HPARAMS.StreamableHTTPParameters(url="http://srv/mcp"))
    need(t, "_incoming_send", "_outgoing_recv", "_route_response", "_process_sse_text", "_send_message_via_http", "_send_message_internal",
         "_outgoing_message_handler", "_session_id")
    need(HTTP, "httpx", "json")
    t._incoming_send = Rec()
    return t


# ------------------------------------------------------------------ reference SSE parser (WHATWG event stream rules)
def ref_sse_messages(text):
    events, data, etype = [], [], ""
    for raw in text.split("\n"):
        line = raw[:-1] if raw.endswith("\r") else raw
        if line == "":
            if data:
                events.append((etype or "message", "\n".join(data)))
            data, etype = [], ""
            continue
        if line.startswith(":"):
            continue
        if ":" in line:
            k = line.index(":")
            field, value = line[:k], line[k + 1:]
            if value.startswith(" "):
                value = value[1:]
        else:
            field, value = line, ""
        if field == "data":
            data.append(value)
        elif field == "event":
            etype = value
    return [d for t, d in events if t == "message"]


# ---- (a) SSE body grammar: concrete kind tuple, symbolic space/CRLF bits and payload character
P2 = '{"jsonrpc":"2.0","method":"notifications/message","params":{"k":2}}'


def sse_text(kinds, spaces, crlfs, p1):
    """kinds per line: 'd1' data "{"+p1 (symbolic tail), 'd2' data P2, 'em' event: message, 'eo' event: other,
    'c' comment, 'id' id line; every event is terminated by a blank line"""
    out = ""
    pending = False
    for i in range(len(kinds)):
        k = kinds[i]
        sp = " " if spaces[i] else ""
        nl = "\r\n" if crlfs[i] else "\n"
        if k == "d1":
            out += "data:" + sp + "{" + p1 + nl
        elif k == "d2":
            out += "data:" + sp + P2 + nl
        elif k == "em":
            out += "event:" + sp + "message" + nl
        elif k == "eo":
            out += "event:" + sp + "other" + nl
        elif k == "c":
            out += ":" + sp + "comment" + nl
        elif k == "id":
            out += "id:" + sp + "7" + nl
        elif k == "b":
            out += nl
        else:
            raise HarnessError(k)
    out += "\n"  # terminate the last event (a conformant stream ends its events with a blank line)
    return out


class _Capture:
    def __init__(self):
        self.payloads = []


def pick_tail(i):
    # payload tails realising the classes the field parser distinguishes: empty, leading space, colon, ordinary,
    # a character that str.splitlines() treats as a line break, a non-ASCII character
    if i == 0:
        return ""
    if i == 1:
        return " "
    if i == 2:
        return ":"
    if i == 3:
        return "x"
    if i == 4:
        return "\u2028"
    return "\u00e9"


def sse_grammar_sel(kinds, spaces, crlfs, psel):
    return sse_grammar(kinds, spaces, crlfs, pick_tail(psel))


def sse_grammar(kinds, spaces, crlfs, p1):
    text = sse_text(kinds, spaces, crlfs, p1)
    t = make_transport()
    got = []

    async def route(data):
        got.append(data)

    t._route_response = route
    # what the real parser decodes and hands on; decoding is stubbed by identity on the text (the payload is symbolic)
    saved = HTTP.json
    class J:
        JSONDecodeError = saved.JSONDecodeError
        @staticmethod
        def loads(s):
            return {"__text__": s}
        dumps = staticmethod(saved.dumps)
    HTTP.json = J
    try:
        drive(t._process_sse_text(text, "r1"))
    finally:
        HTTP.json = saved
    ref = [d for d in ref_sse_messages(text) if d.strip().startswith("{")]
    if len(got) != len(ref):
        return "sse:number-of-messages-differs"
    for i in range(len(ref)):
        if got[i]["__text__"].strip() != ref[i].strip():
            return "sse:payload-differs"
    return "ok"


# ------------------------------------------------------------------ (b) status / content-type / body / exception matrix
RESP = lambda rid: {"jsonrpc": "2.0", "id": rid, "result": {"ok": True}}
NOTIF = {"jsonrpc": "2.0", "method": "notifications/message", "params": {"n": 1}}


def body_for(bsel, rid):
    """returns (bytes, list of messages the body contains)"""
    if bsel == 0:
        return _json.dumps(RESP(rid)).encode(), [RESP(rid)]
    if bsel == 1:
        return _json.dumps([NOTIF, RESP(rid)]).encode(), [NOTIF, RESP(rid)]
    if bsel == 2:
        return _json.dumps(RESP("someone-else")).encode(), [RESP("someone-else")]
    if bsel == 3:
        return b"", []
    if bsel == 4:
        return _json.dumps(RESP(rid)).encode()[:-3], []  # truncated
    if bsel == 5:
        return b"<html>not json</html>", []
    if bsel == 6:
        return b"\xff\xfe\x00{", []  # not UTF-8
    if bsel == 7:
        return b"{}", []  # JSON, but no message
    if bsel == 8:
        return b'"just a string"', []
    if bsel == 9:  # a JSON-RPC error object under a placeholder id (what some servers send with 400/404/406)
        m = {"jsonrpc": "2.0", "id": "server-error", "error": {"code": -32600, "message": "bad request"}}
        return _json.dumps(m).encode(), [m]
    if bsel == 10:  # ... with a null id: no JSON-RPC message for anybody
        return _json.dumps({"jsonrpc": "2.0", "id": None, "error": {"code": -32600, "message": "bad request"}}).encode(), []
    if bsel == 11:  # ... quoting the request's own id
        m = {"jsonrpc": "2.0", "id": rid, "error": {"code": -32001, "message": "denied", "data": {"k": None}}}
        return _json.dumps(m).encode(), [m]
    if bsel == 12:  # a genuine response whose result is the empty object (ping, logging/setLevel)
        m = {"jsonrpc": "2.0", "id": rid, "result": {}}
        return _json.dumps(m).encode(), [m]
    raise HarnessError("bsel")


def sse_body_for(ssel, rid):
    r, n = _json.dumps(RESP(rid)), _json.dumps(NOTIF)
    if ssel == 0:
        return ("event: message\ndata: " + r + "\n\n").encode(), [RESP(rid)]
    if ssel == 1:
        return ("data:" + r + "\n\n").encode(), [RESP(rid)]  # no event field, no space
    if ssel == 2:
        return (": hello\r\nevent: message\r\ndata: " + n + "\r\n\r\nevent: message\r\ndata: " + r + "\r\n\r\n").encode(), [NOTIF, RESP(rid)]
    if ssel == 3:
        return b"", []
    if ssel == 4:
        return b": keep-alive\n\n", []
    if ssel == 5:
        return ("event: other\ndata: " + r + "\n\n").encode(), []
    if ssel == 6:
        return ("id: 1\ndata: " + n + "\n\ndata: " + r + "\n\n").encode(), [NOTIF, RESP(rid)]
    if ssel == 7:
        e = {"jsonrpc": "2.0", "id": rid, "result": {}}
        return ("data: " + n + "\n\ndata: " + _json.dumps(e) + "\n\n").encode(), [NOTIF, e]
    raise HarnessError("ssel")


def pick_id(i):
    if i == 0:
        return "r1"
    if i == 1:
        return 5
    if i == 2:
        return 0
    return None  # a notification


def pick_exc(i):
    if i == 1:
        return _httpx.ConnectError("connection refused")
    if i == 2:
        return _httpx.ReadTimeout("timed out")
    if i == 3:
        return _httpx.RemoteProtocolError("server disconnected")
    if i == 4:
        return asyncio.TimeoutError()
    return None


def out_message(rid, typed):
    d = {"jsonrpc": "2.0", "method": "tools/list"}
    if rid is not None:
        d["id"] = rid
    else:
        d["method"] = "notifications/initialized"
    if typed:
        JM = importlib.import_module("chuk_mcp.protocol.messages.json_rpc_message")
        return JM.JSONRPCMessage(**d)
    return d


def one_post(t, status, ctsel, bsel, is_sse, esel, idsel, sess, typed):
    """plan one POST; returns (message, expectation)"""
    rid = pick_id(idsel)
    exc = pick_exc(esel)
    msg = out_message(rid, typed)
    if exc is not None:
        W.plan.append(("raise", exc))
        return msg, ("synth", rid)
    brid = rid if rid is not None else "unrelated-id"  # a notification POST answered with a body: the body's messages are the server's own
    if is_sse:
        body, contained = sse_body_for(bsel, brid)
        ct = "text/event-stream"
    else:
        body, contained = body_for(bsel, brid)
        ct = None if ctsel == 3 else ("application/json" if ctsel == 0 else ("application/json; charset=utf-8" if ctsel == 1 else "text/plain"))
    headers = {}
    if ct is not None:
        headers["Content-Type"] = ct
    if sess is not None and status < 400:
        headers["Mcp-Session-Id"] = sess
    W.plan.append(("resp", FakeResponse(status, headers, body)))
    if status >= 400 or not contained:
        return msg, ("synth", rid)
    return msg, ("deliver", contained)


def _judge_post(delivered, exp, rid):
    kind, val = exp
    if kind == "deliver":
        if not same_json(delivered, val):
            return "delivered-messages-differ-from-body"
        return "ok"
    # exactly one synthesised terminal message with the request's id; nothing with an id for a notification
    with_id = [m for m in delivered if "id" in m and m["id"] is not None]
    if rid is None:
        if with_id:
            return "message-with-id-for-a-notification"
        return "ok"
    if len(delivered) != 1:
        return "not-exactly-one-terminal-message:" + str(len(delivered))
    m = delivered[0]
    if "id" not in m or not same_json(m["id"], rid):
        return "terminal-message-id-differs"
    g = grammar(m)
    if g != "ok":
        return "terminal-message-grammar:" + g
    return "ok"


def matrix1(status, ctsel, bsel, is_sse, esel, idsel, typed):
    """a single POST"""
    W.plan, W.posts = [], []
    t = make_transport()
    msg, exp = one_post(t, status, ctsel, bsel, is_sse, esel, idsel, None, typed)
    drive(t._send_message_via_http(msg))
    delivered = [dump(m) for m in t._incoming_send.items]
    return _judge_post(delivered, exp, pick_id(idsel))


class _Out:
    def __init__(self, items):
        self.items = items

    def __aiter__(self):
        self.i = 0
        return self

    async def __anext__(self):
        if self.i >= len(self.items):
            raise StopAsyncIteration
        x = self.items[self.i]
        self.i += 1
        return x


def pick_session(i):
    if i == 0:
        return None
    if i == 1:
        return "sess-A"
    if i == 2:
        return "sess-B"
    return "s"


def sequence_sel(cases, a, b):
    return sequence(cases, pick_session(a), pick_session(b))


def sequence(cases, s0, s1):
    """2-3 POSTs through the real sender loop: a failure never prevents later requests; the most recent
    session id issued by the server is carried by every later request.
    cases: tuples (status, ctsel, bsel, is_sse, esel, idsel); s0/s1: session ids issued by POST 0 / 1 (or None)"""
    W.plan, W.posts = [], []
    t = make_transport()
    msgs, exps = [], []
    sess = [s0, s1, None]
    for i in range(len(cases)):
        st, ct, b, sse, e, idsel = cases[i]
        m, x = one_post(t, st, ct, b, sse, e, idsel, sess[i] if i < 3 else None, i % 2 == 0)
        msgs.append(m)
        exps.append((x, pick_id(idsel)))
    t._outgoing_recv = _Out(msgs)
    drive(t._outgoing_message_handler())
    if len(W.posts) != len(cases):
        return "later-request-not-sent-after-failure"
    # session header carried
    current = None
    for i in range(len(cases)):
        h = {k.lower(): v for k, v in W.posts[i]["headers"].items()}
        got = h.get("mcp-session-id")
        if current is None:
            if got is not None:
                return "session-id-invented"
        elif got != current:
            return "request-does-not-carry-most-recent-session-id"
        st, ct, b, sse, e, idsel = cases[i]
        issued = sess[i] if i < 3 else None
        if issued is not None and pick_exc(e) is None and st < 400:
            current = issued
    # body of each POST is the message
    for i in range(len(cases)):
        if not same_json(W.posts[i]["json"], dump(msgs[i])):
            return "posted-body-differs-from-message"
    # per-POST deliveries, in order
    delivered = [dump(m) for m in t._incoming_send.items]
    pos = 0
    for (kind, val), rid in exps:
        if kind == "deliver":
            n = len(val)
        else:
            n = 0 if rid is None else 1
            if rid is None:
                # tolerate id-less leftovers of a failed notification
                while pos < len(delivered) and ("id" not in delivered[pos] or delivered[pos]["id"] is None) and "method" not in delivered[pos]:
                    pos += 1
        r = _judge_post(delivered[pos:pos + n], (kind, val), rid)
        if r != "ok":
            return r
        pos += n
    if pos != len(delivered):
        return "extra-messages-delivered"
    return "ok"


def session_after(status, ct, bsel, is_sse, idsel, had_before):
    """whatever a non-error response looks like, a session id it issues is carried by the next request"""
    first = (status, ct, bsel, is_sse, 0, idsel)
    second = (200, 0, 0, False, 0, 0)
    if had_before:
        # an earlier response already issued sess-A; this one rotates it to sess-B
        return sequence([(200, 0, 0, False, 0, 0), first, second], "sess-A", "sess-B")
    return sequence([first, second], "sess-A", None)


# ------------------------------------------------------------------ size / count dimension
from harness import sizes as _sizes  # noqa: E402

_sizes.size_cases(70000, extra=_sizes.ENV_SIZES)


def post_big(k, pat, form, idsel, typed, lim=70000):
    """the answer to one POST carries a string of c-1, c, c+1 characters (c: integer constants of the source and
    environment sizes): (0) JSON body, (1) SSE body with one event, (2) SSE body where the long event is a
    notification before the response, (3) JSON error body with a long message and status 400"""
    n = _sizes.pick(_sizes.size_cases(lim, extra=_sizes.ENV_SIZES), k)
    text = _sizes.long_text(n, pat)
    rid = pick_id(idsel)
    if rid is None:
        return "ok"
    resp = {"jsonrpc": "2.0", "id": rid, "result": {"t": text}}
    note = {"jsonrpc": "2.0", "method": "notifications/message", "params": {"d": text}}
    small = {"jsonrpc": "2.0", "id": rid, "result": {"ok": True}}
    W.plan, W.posts = [], []
    t = make_transport()
    if form == 0:
        W.plan.append(("resp", FakeResponse(200, {"Content-Type": "application/json"}, _json.dumps(resp, ensure_ascii=False).encode("utf-8"))))
        exp = [resp]
    elif form == 1:
        W.plan.append(("resp", FakeResponse(200, {"Content-Type": "text/event-stream"}, ("event: message\ndata: " + _json.dumps(resp, ensure_ascii=False) + "\n\n").encode("utf-8"))))
        exp = [resp]
    elif form == 2:
        body = "data: " + _json.dumps(note, ensure_ascii=False) + "\n\n" + "data: " + _json.dumps(small) + "\n\n"
        W.plan.append(("resp", FakeResponse(200, {"Content-Type": "text/event-stream"}, body.encode("utf-8"))))
        exp = [note, small]
    else:
        err = {"jsonrpc": "2.0", "id": rid, "error": {"code": -32001, "message": text}}
        W.plan.append(("resp", FakeResponse(400, {"Content-Type": "application/json"}, _json.dumps(err, ensure_ascii=False).encode("utf-8"))))
        exp = None
    drive(t._send_message_via_http(out_message(rid, typed)))
    delivered = [dump(m) for m in t._incoming_send.items]
    if exp is not None:
        if not same_json(delivered, exp):
            return "delivered-messages-differ-from-body:%d" % len(delivered)
        return "ok"
    return _judge_post(delivered, ("synth", rid), rid)


def post_many(k, idsel, lim=410):
    """an SSE body with n notifications (n = c-1, c, c+1) before the response"""
    n = _sizes.pick(_sizes.size_cases(lim), k)
    rid = pick_id(idsel)
    if rid is None:
        return "ok"
    msgs = [{"jsonrpc": "2.0", "method": "notifications/message", "params": {"n": i}} for i in range(n)] + [{"jsonrpc": "2.0", "id": rid, "result": {"ok": True}}]
    body = "".join(("event: message\n" if i % 2 else "") + "data: " + _json.dumps(m) + "\n\n" for i, m in enumerate(msgs))
    W.plan, W.posts = [("resp", FakeResponse(200, {"Content-Type": "text/event-stream"}, body.encode("utf-8")))], []
    t = make_transport()
    drive(t._send_message_via_http(out_message(rid, False)))
    delivered = [dump(m) for m in t._incoming_send.items]
    if len(delivered) != len(msgs):
        return "messages-lost-or-duplicated:%d" % (len(delivered) - len(msgs))
    if not same_json(delivered, msgs):
        return "delivered-messages-differ-from-body"
    return "ok"


def posts_nth(k, idsel, lim=410):
    """the (n+1)-th POST on one transport: each of the n earlier requests got exactly its own answer"""
    n = _sizes.pick(_sizes.size_cases(lim), k)
    rid = pick_id(idsel)
    if rid is None:
        return "ok"
    W.plan, W.posts = [], []
    t = make_transport()
    exp = []
    for i in range(n):
        r = {"jsonrpc": "2.0", "id": "w%d" % i, "result": {"i": i}}
        exp.append(r)
        W.plan.append(("resp", FakeResponse(200, {"Content-Type": "application/json", "Mcp-Session-Id": "sess"}, _json.dumps(r).encode())))
    last = {"jsonrpc": "2.0", "id": rid, "result": {"ok": True}}
    exp.append(last)
    W.plan.append(("resp", FakeResponse(200, {"Content-Type": "application/json"}, _json.dumps(last).encode())))
    for i in range(n):
        drive(t._send_message_via_http({"jsonrpc": "2.0", "id": "w%d" % i, "method": "ping"}))
    drive(t._send_message_via_http(out_message(rid, True)))
    delivered = [dump(m) for m in t._incoming_send.items]
    if not same_json(delivered, exp):
        return "delivered-messages-differ-over-a-long-connection:%d" % (len(delivered) - len(exp))
    if n and W.posts[-1]["headers"].get("Mcp-Session-Id", W.posts[-1]["headers"].get("mcp-session-id")) != "sess":
        return "session-header-lost-on-a-long-connection"
    return "ok"


def posts_bounded(k, cap, idsel, form):
    """back-pressure: the read stream holds at most `cap` unread messages and the reader is late (it takes what is
    buffered only when the transport has to wait for room).  n earlier requests were answered, then one more:
    exactly the server's messages are delivered, none invented.  form 0: JSON bodies, 1: SSE bodies with a
    notification before each response"""
    from harness.stdio_fake import BoundedRec

    n = _sizes.pick(_sizes.size_cases(12), k)
    rid = pick_id(idsel)
    if rid is None:
        return "ok"
    W.plan, W.posts = [], []
    t = make_transport()
    t._incoming_send = BoundedRec(cap)
    exp = []
    ids = ["w%d" % i for i in range(n)] + [rid]
    for i, x in enumerate(ids):
        r = {"jsonrpc": "2.0", "id": x, "result": {"i": i}}
        if form == 0:
            exp.append(r)
            W.plan.append(("resp", FakeResponse(200, {"Content-Type": "application/json"}, _json.dumps(r).encode())))
        else:
            note = {"jsonrpc": "2.0", "method": "notifications/message", "params": {"i": i}}
            exp += [note, r]
            body = "data: " + _json.dumps(note) + "\n\n" + "event: message\ndata: " + _json.dumps(r) + "\n\n"
            W.plan.append(("resp", FakeResponse(200, {"Content-Type": "text/event-stream"}, body.encode())))
    for x in ids:
        drive(t._send_message_via_http({"jsonrpc": "2.0", "id": x, "method": "ping"}))
    delivered = [dump(m) for m in t._incoming_send.items]
    if len(delivered) != len(exp):
        return "messages-lost-or-invented-under-back-pressure:%d" % (len(delivered) - len(exp))
    if not same_json(delivered, exp):
        return "delivered-messages-differ-under-back-pressure"
    return "ok"


def post_text(i, form, idsel):
    """content corpus: the answer carries the i-th 'active' text raw: (0) JSON body, (1) SSE body, (2) SSE body with
    CRLF line ends where the text is in a notification before the response"""
    text = _sizes.pick_text(i)
    rid = pick_id(idsel)
    if rid is None:
        return "ok"
    resp = {"jsonrpc": "2.0", "id": rid, "result": {"t": text}}
    note = {"jsonrpc": "2.0", "method": "notifications/message", "params": {"d": text}}
    small = {"jsonrpc": "2.0", "id": rid, "result": {"ok": True}}
    W.plan, W.posts = [], []
    t = make_transport()
    if form == 0:
        W.plan.append(("resp", FakeResponse(200, {"Content-Type": "application/json"}, _json.dumps(resp, ensure_ascii=False).encode("utf-8"))))
        exp = [resp]
    elif form == 1:
        W.plan.append(("resp", FakeResponse(200, {"Content-Type": "text/event-stream"}, ("event: message\ndata: " + _json.dumps(resp, ensure_ascii=False) + "\n\n").encode("utf-8"))))
        exp = [resp]
    else:
        body = "data: " + _json.dumps(note, ensure_ascii=False) + "\r\n\r\n" + "data: " + _json.dumps(small) + "\r\n\r\n"
        W.plan.append(("resp", FakeResponse(200, {"Content-Type": "text/event-stream; charset=utf-8"}, body.encode("utf-8"))))
        exp = [note, small]
    drive(t._send_message_via_http(out_message(rid, True)))
    delivered = [dump(m) for m in t._incoming_send.items]
    if not same_json(delivered, exp):
        return "delivered-messages-differ-from-body:%d" % len(delivered)
    return "ok"
