"""Native validation of the AsyncioShim world of C12 against the REAL asyncio event loop and the REAL httpx client
(httpx.MockTransport as the server): the same scenarios, the same observable outcomes.  Not a solver step."""
import asyncio
import json
import sys

import anyio
import httpx


def make_handler(scn, state):
    async def stream_body():
        for chunk in scn.get("chunks", []):
            await asyncio.sleep(0.02)
            yield chunk.encode()
        if scn.get("end") == "silent":
            for _ in range(400):  # stay open; forward events that a POST queues later
                await asyncio.sleep(0.01)
                while state.get("late"):
                    yield state["late"].pop(0).encode()

    async def handler(request: httpx.Request):
        if request.url.path.endswith("/sse"):
            if scn.get("connect") == "refused":
                raise httpx.ConnectError("connection refused", request=request)
            return httpx.Response(scn.get("status", 200), headers={"content-type": "text/event-stream"}, content=stream_body())
        state["posts"] = state.get("posts", 0) + 1
        body = json.loads(request.content)
        p = scn["post"]
        if p.get("raise"):
            raise httpx.ConnectError("boom", request=request)
        if p.get("event"):
            state.setdefault("late", []).append("event: message\ndata: " + json.dumps({"jsonrpc": "2.0", "id": body["id"], "result": {"ok": 1}}) + "\n\n")
        if p["status"] == 200 and p.get("json"):
            return httpx.Response(200, json={"jsonrpc": "2.0", "id": body["id"], "result": {"ok": 1}})
        return httpx.Response(p["status"], content=p.get("body", b""))

    return handler


async def run(scn):
    import chuk_mcp.transports.sse.transport as _t  # noqa
    SSE = sys.modules["chuk_mcp.transports.sse.transport"]
    SCLI = sys.modules["chuk_mcp.transports.sse.sse_client"]
    SPAR = sys.modules["chuk_mcp.transports.sse.parameters"]
    state = {}
    handler = make_handler(scn, state)
    real = httpx.AsyncClient

    class Client(real):
        def __init__(self, *a, **k):
            k["transport"] = httpx.MockTransport(handler)
            super().__init__(*a, **k)

    SSE.httpx.AsyncClient = Client
    try:
        try:
            async with SCLI.sse_client(SPAR.SSEParameters(url="http://srv", timeout=0.5)) as (r, w):
                if "post" not in scn:
                    return "entered"
                from chuk_mcp.protocol.messages.json_rpc_message import JSONRPCMessage
                await w.send(JSONRPCMessage(jsonrpc="2.0", id=scn["id"], method="tools/list"))
                got = []
                with anyio.move_on_after(1.5):
                    while True:
                        m = await r.receive()
                        got.append(m.model_dump(exclude_none=True))
                        if len(got) >= 1 and "method" not in got[-1]:
                            await anyio.sleep(0.2)
                            break
                try:
                    while True:
                        got.append(r.receive_nowait().model_dump(exclude_none=True))
                except (anyio.WouldBlock, anyio.EndOfStream):
                    pass
                mine = [g for g in got if "method" not in g]
                if len(mine) != 1:
                    return "terminal-count:%d" % len(mine)
                if mine[0].get("id") != scn["id"] or type(mine[0].get("id")) is not type(scn["id"]):
                    return "terminal-id:%r" % (mine[0].get("id"),)
                return "one-terminal:" + ("result" if "result" in mine[0] else "error")
        except BaseExceptionGroup as eg:
            return "raised:" + type(eg.exceptions[0]).__name__
        except Exception as e:
            return "raised:" + type(e).__name__
    finally:
        SSE.httpx.AsyncClient = real


async def run_exit_while_waiting(kind):
    """leave the context while a request is between its 202 acknowledgement and the event that answers it
    (normal exit / exception in the body / cancellation of the surrounding scope): must return promptly"""
    import time
    import chuk_mcp.transports.sse.transport as _t  # noqa
    SSE = sys.modules["chuk_mcp.transports.sse.transport"]
    SCLI = sys.modules["chuk_mcp.transports.sse.sse_client"]
    SPAR = sys.modules["chuk_mcp.transports.sse.parameters"]
    from chuk_mcp.protocol.messages.json_rpc_message import JSONRPCMessage
    scn = {"chunks": [ANNOUNCE], "end": "silent", "post": {"status": 202}}
    state = {}
    handler = make_handler(scn, state)
    real = httpx.AsyncClient

    class Client(real):
        def __init__(self, *a, **k):
            k["transport"] = httpx.MockTransport(handler)
            super().__init__(*a, **k)

    SSE.httpx.AsyncClient = Client
    t0 = time.time()
    try:
        async def body():
            async with SCLI.sse_client(SPAR.SSEParameters(url="http://srv", timeout=30.0)) as (r, w):
                await w.send(JSONRPCMessage(jsonrpc="2.0", id="r1", method="tools/list"))
                await anyio.sleep(0.2)
                if kind == "exception":
                    raise KeyError("body")
                if kind == "cancellation":
                    await anyio.sleep(30)

        try:
            with anyio.move_on_after(3.0) as guard:
                if kind == "cancellation":
                    with anyio.move_on_after(0.4):
                        await body()
                else:
                    try:
                        await body()
                    except KeyError:
                        pass
            if guard.cancelled_caught:
                return "exit-hangs"
        except BaseException as e:  # noqa
            return "raised:" + type(e).__name__
    finally:
        SSE.httpx.AsyncClient = real
    dt = time.time() - t0
    return "left-in-time" if dt < 2.0 else "slow-exit:%.1fs" % dt


ANNOUNCE = "event: endpoint\ndata: /messages/?session_id=s1\n\n"
SCENARIOS = [
    ("refused", {"connect": "refused"}, "raised"),
    ("status-404", {"status": 404, "chunks": [ANNOUNCE]}, "raised"),
    ("ends-without-announcing", {"chunks": [": hi\n\n"], "end": "end"}, "raised"),
    ("silent", {"chunks": [], "end": "silent"}, "raised"),
    ("announced", {"chunks": [ANNOUNCE], "end": "silent"}, "entered"),
    ("slow-announcement", {"chunks": [": hi\n\n", "event: keepalive\ndata: {}\n\n", ANNOUNCE], "end": "silent"}, "entered"),
    ("200-body-int-id", {"chunks": [ANNOUNCE], "end": "silent", "id": 5, "post": {"status": 200, "json": True}}, "one-terminal:result"),
    ("202-then-event", {"chunks": [ANNOUNCE], "end": "silent", "id": "r1", "post": {"status": 202, "event": True}}, "one-terminal:result"),
    ("202-silence-int-id", {"chunks": [ANNOUNCE], "end": "silent", "id": 7, "post": {"status": 202}}, "one-terminal:error"),
    ("500-int-id", {"chunks": [ANNOUNCE], "end": "silent", "id": -7, "post": {"status": 500, "body": b"oops"}}, "one-terminal:error"),
    ("post-raises", {"chunks": [ANNOUNCE], "end": "silent", "id": 0, "post": {"raise": True}}, "one-terminal:error"),
]


async def main():
    import logging

    logging.disable(logging.CRITICAL)
    out, bad = [], []
    for name, scn, want in SCENARIOS:
        got = await run(scn)
        out.append({"scenario": name, "outcome": got})
        if not got.startswith(want):
            bad.append({"case": name, "reason": "real-run-outcome:" + got + " expected " + want})
    for kind in ("normal", "exception", "cancellation"):
        got = await run_exit_while_waiting(kind)
        out.append({"scenario": "exit-while-waiting-after-202/" + kind, "outcome": got})
        if got != "left-in-time":
            bad.append({"case": "exit-while-waiting-after-202/" + kind, "reason": "real-run-outcome:" + got + " expected left-in-time"})
    print("REALSSE " + json.dumps({"runs": len(out), "details": out, "violations": bad}))


if __name__ == "__main__":
    asyncio.run(main())
