"""C13 - batches are accepted exactly for protocol versions older than 2025-06-18."""
import importlib
import json

from symcheck.env import drive, dump, same_json, HarnessError, Ticks as _Ticks
from harness.stdio_fake import make_client

BATCH = importlib.import_module("chuk_mcp.protocol.features.batching")
VER = importlib.import_module("chuk_mcp.protocol.types.versioning")
CUTOFF = "2025-06-18"


def _wellformed(s):
    return len(s) == 10 and s[4] == "-" and s[7] == "-"


def decision(s):
    """(a) for every dddd-dd-dd string: the decision equals the library's own ordering and the
    calendar order (lexicographic order of fixed-width ASCII dates)."""
    got = BATCH.supports_batching(s)
    if type(got) is not bool:
        return "decision-not-bool"
    lib = VER.ProtocolVersion.compare(s, CUTOFF) < 0
    if got != lib:
        return "decision-disagrees-with-library-ordering"
    if got != (s < CUTOFF):
        return "decision-disagrees-with-calendar-order"
    if BATCH.should_reject_batch(s, []) == got:
        return "should-reject-batch-inconsistent"
    if BATCH.should_reject_batch(s, {}):
        return "single-message-rejected"
    bp = BATCH.BatchProcessor(s)
    if bp.batching_enabled != got:
        return "processor-init-disagrees"
    bp2 = BATCH.BatchProcessor()
    if bp2.batching_enabled is not True:
        return "unversioned-processor-does-not-batch"
    bp2.update_protocol_version(s)
    if bp2.batching_enabled != got or bp2.protocol_version != s:
        return "processor-update-disagrees"
    if bp2.can_process_batch([]) != got or not bp2.can_process_batch({}):
        return "can-process-batch-disagrees"
    return "ok"


def monotone(s, t):
    """s <= t (calendar order) and t batches => s batches"""
    if BATCH.supports_batching(t) and not BATCH.supports_batching(s):
        return "not-monotone"
    return "ok"


def unversioned():
    if BATCH.supports_batching(None) is not True or BATCH.supports_batching("") is not True:
        return "no-version-must-batch"
    return "ok"


# ------------------------------------------------------------------ transport behaviour
VERSIONS = [None, "2024-11-05", "2025-03-26", "2025-06-18", "2025-06-17", "2025-06-19", "2025-07-01", "2026-01-01", "2024-12-31"]


def pick_version(i):
    if i == 0:
        return None
    if i == 1:
        return "2024-11-05"
    if i == 2:
        return "2025-03-26"
    if i == 3:
        return "2025-06-18"
    if i == 4:
        return "2025-06-17"
    if i == 5:
        return "2025-06-19"
    if i == 6:
        return "2025-07-01"
    if i == 7:
        return "2026-01-01"
    return "2024-12-31"


def member(sel, pos):
    if sel == 0:
        return {"jsonrpc": "2.0", "id": 100 + pos, "result": {"p": pos}}, "resp"
    if sel == 1:
        return {"jsonrpc": "2.0", "method": "notifications/message", "params": {"p": pos}}, "notif"
    if sel == 2:
        return {"jsonrpc": "2.0", "id": "q%d" % pos, "method": "ping"}, "req"
    if sel == 3:
        return {"jsonrpc": "2.0", "id": 7}, None  # neither result nor error: not a message
    return 5, None  # not even an object


def _ref_batching(v):
    if not v:
        return True
    return v < CUTOFF


def _check_batch(client, sels, v, base_main, base_notif, base_stdin):
    items = []
    exp_main, exp_notif = [], []
    for i in range(len(sels)):
        m, kind = member(sels[i], i)
        items.append(m)
        if kind is not None:
            exp_main.append(m)
            if kind == "notif":
                exp_notif.append(m)
    try:
        drive(client._process_message_data(items))
    except HarnessError:
        raise
    except Exception as e:
        return "batch-processing-raised:" + type(e).__name__
    main = [dump(x) for x in client._incoming_send.items[base_main:]]
    notif = [dump(x) for x in client._notify_send.items[base_notif:]]
    written = client.process.stdin.chunks[base_stdin:]
    if _ref_batching(v):
        if written:
            return "wrote-to-server-although-batching-on"
        if not same_json(main, exp_main):
            return "batch-members-not-delivered-in-order"
        if not same_json(notif, exp_notif):
            return "notifications-not-offered"
    else:
        if main or notif:
            return "member-delivered-although-batch-rejected"
        if len(written) != 1:
            return "not-exactly-one-rejection"
        w = written[0]
        if not isinstance(w, bytes) or not w.endswith(b"\n") or w.count(b"\n") != 1:
            return "rejection-not-one-line"
        d = json.loads(w.decode("utf-8"))
        if d.get("jsonrpc") != "2.0" or not isinstance(d.get("error"), dict) or d["error"].get("code") != -32600:
            return "rejection-not-invalid-request"
        if not isinstance(d["error"].get("message"), str):
            return "rejection-without-message"
    return "ok"


def transport(vsel, sels):
    v = pick_version(vsel)
    c = make_client()
    if v is not None:
        c.set_protocol_version(v)
    return _check_batch(c, sels, v, 0, 0, 0)


def transport_date(s, sels):
    """Symbolic well-formed date as negotiated version.  The rejection is observed at the
    `_send_error_response` seam (the dict handed to it): serialising a message that embeds the
    symbolic version text would realise it character by character.  The write-through to the
    child's stdin is covered by the selector family above."""
    c = make_client()
    c.set_protocol_version(s)
    sent = []

    async def rec(error_response):
        sent.append(error_response)

    if not hasattr(c, "_send_error_response"):
        raise HarnessError("seam missing: StdioClient._send_error_response")
    c._send_error_response = rec
    items = []
    exp_main = []
    for i in range(len(sels)):
        m, kind = member(sels[i], i)
        items.append(m)
        if kind is not None:
            exp_main.append(m)
    drive(c._process_message_data(items))
    main = [dump(x) for x in c._incoming_send.items]
    if s < CUTOFF:
        if sent:
            return "rejected-although-batching-on"
        if not same_json(main, exp_main):
            return "batch-members-not-delivered-in-order"
    else:
        if main or c._notify_send.items:
            return "member-delivered-although-batch-rejected"
        if len(sent) != 1:
            return "not-exactly-one-rejection"
        e = sent[0].get("error") or {}
        if e.get("code") != -32600 or sent[0].get("jsonrpc") != "2.0":
            return "rejection-not-invalid-request"
    return "ok"


def history(v1, v2, sels1, sels2):
    """version change mid-connection: each batch is judged by the version current at that moment"""
    a, b = pick_version(v1), pick_version(v2)
    c = make_client()
    if a is not None:
        c.set_protocol_version(a)
    r = _check_batch(c, sels1, a, 0, 0, 0)
    if r != "ok":
        return "first:" + r
    if b is not None:
        c.set_protocol_version(b)
        cur = b
    else:
        cur = a
    r = _check_batch(c, sels2, cur, len(c._incoming_send.items), len(c._notify_send.items), len(c.process.stdin.chunks))
    if r != "ok":
        return "second:" + r
    info = c.get_batching_info()
    if info["batching_enabled"] != _ref_batching(cur) or info["protocol_version"] != cur:
        return "batching-info-stale"
    return "ok"


def single(vsel, sel):
    """a single (non-batch) message is never rejected, whatever the version"""
    v = pick_version(vsel)
    c = make_client()
    if v is not None:
        c.set_protocol_version(v)
    m, kind = member(sel, 0)
    if not isinstance(m, dict):
        return "ok"
    drive(c._process_message_data(m))
    main = [dump(x) for x in c._incoming_send.items]
    if c.process.stdin.chunks:
        return "single-message-answered-with-error"
    if kind is None:
        return "ok" if not main else "invalid-single-delivered"
    if not same_json(main, [m]):
        return "single-message-not-delivered"
    return "ok"


def repeat(vsel, sels1, sels2, sels3):
    """several batches in a row while the negotiated version stays the same: EACH is judged on its own"""
    v = pick_version(vsel)
    c = make_client()
    if v is not None:
        c.set_protocol_version(v)
    for k, sels in enumerate((sels1, sels2, sels3)):
        r = _check_batch(c, sels, v, len(c._incoming_send.items), len(c._notify_send.items), len(c.process.stdin.chunks))
        if r != "ok":
            return "batch-%d:" % (k + 1) + r
    return "ok"


HS_VERSIONS = ["2025-06-18", "2025-03-26", "2024-11-05", "2025-11-25", "2025-06-19", "2025-06-17", "2031-01-01", "2019-12-31"]


def pick_hs(i):
    if i == 0:
        return HS_VERSIONS[0]
    if i == 1:
        return HS_VERSIONS[1]
    if i == 2:
        return HS_VERSIONS[2]
    if i == 3:
        return HS_VERSIONS[3]
    if i == 4:
        return HS_VERSIONS[4]
    if i == 5:
        return HS_VERSIONS[5]
    if i == 6:
        return HS_VERSIONS[6]
    return HS_VERSIONS[7]


def after_handshake(vsel, first_sel, sels):
    """the version reaches the transport through a real handshake (send_initialize_with_client_tracking on this client,
    the caller offering exactly that version - listed by the library or not); optionally a second handshake changes it"""
    from harness import sm
    import sys as _sys
    INIT = _sys.modules["chuk_mcp.protocol.messages.initialize.send_messages"]

    c = make_client()

    def handshake(v):
        class L(list):
            def __getitem__(self, n):
                t, _ = list.__getitem__(self, n)
                rid = sm.dump(sm.ENV.wire[0][1])["id"]
                return (t, sm.JSONRPCMessage(jsonrpc="2.0", id=rid, result={"protocolVersion": v, "capabilities": {}, "serverInfo": {"name": "s", "version": "1"}}))

        out = sm.run_stub(L([(1, None)]), lambda r, w: INIT.send_initialize_with_client_tracking(r, w, client=c, timeout=_Ticks(50), supported_versions=[v]))
        return out.kind

    if first_sel >= 0:
        if handshake(pick_hs(first_sel)) != "result":
            return "first-handshake-failed"
    v = pick_hs(vsel)
    if handshake(v) != "result":
        return "handshake-failed"
    return _check_batch(c, sels, v, len(c._incoming_send.items), len(c._notify_send.items), len(c.process.stdin.chunks))


# ------------------------------------------------------------------ count dimension: batches of c-1, c, c+1 members
from symcheck.consts import size_cases, pick  # noqa: E402

for _lim in (410, 1100, 70000):
    size_cases(_lim)  # scanned at import time (a scan inside a traced path would be repeated per path)


def big_batch(vsel, k, pat, lim=1100):
    n = pick(size_cases(lim), k)
    if pat == 0:
        sels = [1] * n                                   # notifications only
    elif pat == 1:
        sels = [(0, 1, 2)[i % 3] for i in range(n)]      # responses, notifications, requests
    else:
        sels = [(0, 1, 2)[i % 3] for i in range(n)]
        if n:
            sels[n // 2] = 3                             # one invalid member in the middle
            sels[n - 1] = 4                              # and one at the end
    return transport(vsel, sels)
