"""C20 - every host entry point launches exactly the server the configuration names."""
import importlib
import json as _json
import sys

import anyio

from symcheck.env import drive, dump, same_json, HarnessError, install_clock, need
from harness.stdio_fake import FakeProcess, STDIO, SPARAMS

install_clock()
CONFIG = importlib.import_module("chuk_mcp.config")
ENVMOD = importlib.import_module("chuk_mcp.mcp_client.host.environment")
SMGR = importlib.import_module("chuk_mcp.mcp_client.host.server_manager")
MAIN = importlib.import_module("chuk_mcp.__main__")


class _Launches:
    def __init__(self):
        self.calls = []
        self.handshakes = []
        self.clients = []


L = _Launches()


class _FakeTG:
    def __init__(self):
        class CS:
            def cancel(self):
                pass

        self.cancel_scope = CS()

    async def __aenter__(self):
        return self

    async def __aexit__(self, *a):
        return None

    def start_soon(self, fn, *a):
        pass


async def _open_process(argv, env=None, **kw):
    L.calls.append((list(argv), env))
    p = FakeProcess()
    p.returncode = 0  # already gone at shutdown: the control logic of C16 is not the subject here
    return p


NOMINAL_FILE_SIZE = 4096  # size attributed to the configuration file when its text is not materialised


class _Tok(str):
    """what read() returns when the configuration is symbolic (its JSON text is not materialised)"""


class _JsonShim:
    """file I/O and JSON decoding of the configuration are not the subject: `json.load(f)` / `json.loads(f.read())`
    give back the configuration object.  A loader that reads only part of the file gets a truncated text, which is
    not valid JSON - the file's size is the real length of its JSON text when the configuration is concrete (size
    family) and NOMINAL_FILE_SIZE otherwise."""

    JSONDecodeError = _json.JSONDecodeError

    def __init__(self, cfg, text=None):
        self.cfg, self.text = cfg, text

    def load(self, f):
        return self.cfg

    def loads(self, t, **kw):
        if isinstance(t, (bytes, bytearray)):
            t = t.decode("utf-8")
        if isinstance(t, _Tok):
            if t.complete:
                return self.cfg
            raise _json.JSONDecodeError("Unterminated string", "config", 0)
        if self.text is not None:
            if t == self.text:
                return self.cfg
            if len(t) < len(self.text) and self.text.startswith(t):
                raise _json.JSONDecodeError("Unterminated string", "config", len(t))
        return _json.loads(t, **kw)

    def dumps(self, o, **kw):
        return _json.dumps(o, **kw)


class _FakeFile:
    def __init__(self, shim=None):
        self.shim, self.pos = shim, 0

    def __enter__(self):
        return self

    def __exit__(self, *a):
        return False

    def read(self, n=-1):
        sh = self.shim
        if sh is None:
            raise HarnessError("configuration file read before _install")
        if sh.text is not None:
            rest = sh.text[self.pos:]
            out = rest if (n is None or n < 0) else rest[:n]
            self.pos += len(out)
            return out
        t = _Tok("<configuration>")
        t.complete = (n is None or n < 0 or n >= NOMINAL_FILE_SIZE)
        return t

    def close(self):
        pass


MATERIALISE = [False]


def _install(cfg, materialise=False):
    materialise = materialise or MATERIALISE[0]
    L.calls, L.handshakes = [], []
    need(CONFIG, "json", "load_config")
    need(SMGR, "send_initialize", "anyio", "asyncio", "os", "run_command")
    need(MAIN, "send_initialize", "test_server")
    shim = _JsonShim(cfg, _json.dumps(cfg, ensure_ascii=False) if materialise else None)
    CONFIG.json = shim
    CONFIG.open = lambda path, mode="r", *a, **k: _FakeFile(shim)
    STDIO.anyio.open_process = _open_process
    STDIO.anyio.create_task_group = lambda: _FakeTG()


class _InitResult:
    class serverInfo:
        name, version = "srv", "1"

    protocolVersion = "2025-06-18"
    instructions = None
    capabilities = None


def _mk_send_initialize(result):
    async def send_initialize(read_stream, write_stream, *a, **k):
        L.handshakes.append((read_stream, write_stream))
        return result

    return send_initialize


def server_entry(command, args, envsel, envval, tsel, extra_key):
    d = {"command": command, "args": list(args)}
    if envsel == 1:
        d["env"] = {}
    elif envsel == 2:
        d["env"] = {"MY_VAR": envval}
    elif envsel == 3:
        d["env"] = {"MY_VAR": envval, "PATH": "/custom/bin"}
    elif envsel == 4:
        d["env"] = {"MY_VAR": envval, "LOG_LEVEL": "error"}  # switches the child's stderr handling, nothing else
    if tsel == 1:
        d["timeout"] = 30
    elif tsel == 2:
        d["timeout"] = 2.5
    elif tsel == 3:
        d["timeout"] = "45"
    if extra_key:
        d["description"] = "ignored extra key"
    return d


def _exp_timeout(tsel):
    return None if tsel == 0 else (30.0 if tsel == 1 else (2.5 if tsel == 2 else 45.0))


def _exp_env(envsel, envval):
    if envsel in (0, 1):
        return ENVMOD.get_default_environment()
    if envsel == 2:
        return {"MY_VAR": envval}
    if envsel == 4:
        return {"MY_VAR": envval, "LOG_LEVEL": "error"}
    return {"MY_VAR": envval, "PATH": "/custom/bin"}


def _check_launch(call, command, args, envsel, envval):
    argv, env = call
    if len(argv) != 1 + len(args) or argv[0] != command:
        return "launched-wrong-command"
    for i in range(len(args)):
        if argv[1 + i] != args[i]:
            return "launched-wrong-arguments"
    exp = _exp_env(envsel, envval)
    if env is None or len(env) != len(exp):
        return "launched-with-wrong-environment"
    for k in exp:
        if k not in env or env[k] != exp[k]:
            return "launched-with-wrong-environment"
    return "ok"


def pick_command(i):
    # commands as they occur in real configurations (bare names found on the host PATH, absolute, relative, unknown, with a space)
    if i == 0:
        return "sh"
    if i == 1:
        return "python3"
    if i == 2:
        return "/opt/tools/my server"
    if i == 3:
        return "./bin/run"
    if i == 4:
        return "no-such-command-anywhere"
    return "env"


def pick_arg(i):
    if i == 0:
        return "--flag"
    if i == 1:
        return "with space and 'quotes' \"dq\""
    if i == 2:
        return ""
    if i == 3:
        return "unicod\u00e9 \U0001f600"
    if i == 4:
        return "-c"
    # white space at the edges is part of the configured argument
    if i == 5:
        return "  indented"
    if i == 6:
        return "trailing "
    if i == 7:
        return "line\n"
    return "\t"


def corpus_entry(which, csel, asel, envsel):
    command, args = pick_command(csel), [pick_arg(asel), pick_arg((asel + 1) % 9)]
    envval = pick_arg((asel + 5) % 9)
    if which == 0:
        return loader(command, args, envsel, envval, 0, False, True)
    if which == 1:
        return cli_test_server(command, args, envsel, envval, 0)
    return runner(command, args, envsel, envval, 1)


def loader(command, args, envsel, envval, tsel, extra_key, others):
    """configuration loader -> StdioClient.__aenter__ -> process spawn"""
    cfg = {"mcpServers": {"target": server_entry(command, args, envsel, envval, tsel, extra_key)}}
    if others:
        cfg["mcpServers"]["other"] = {"command": "other-cmd", "args": ["--x"]}
        cfg["globalSetting"] = 1
    _install(cfg)
    params, timeout = drive(CONFIG.load_config("/cfg.json", "target"))
    if params.command != command or list(params.args) != list(args):
        return "loader-returned-wrong-command-or-args"
    et = _exp_timeout(tsel)
    if (timeout is None) != (et is None) or (et is not None and timeout != et):
        return "loader-returned-wrong-timeout"
    client = STDIO.StdioClient(params)
    drive(client.__aenter__())
    if len(L.calls) != 1:
        return "not-exactly-one-process"
    return _check_launch(L.calls[0], command, args, envsel, envval)


def cli_test_server(command, args, envsel, envval, tsel):
    """python -m chuk_mcp test <server>  ->  __main__.test_server"""
    cfg = {"mcpServers": {"target": server_entry(command, args, envsel, envval, tsel, False), "other": {"command": "other-cmd"}}}
    _install(cfg)
    saved = MAIN.send_initialize
    MAIN.send_initialize = _mk_send_initialize(None)  # the handshake is reached; its outcome is C03's subject
    try:
        import io
        import contextlib

        with contextlib.redirect_stdout(io.StringIO()):
            r = drive(MAIN.test_server("/cfg.json", "target"))
    finally:
        MAIN.send_initialize = saved
    if len(L.calls) != 1:
        return "not-exactly-one-process"
    c = _check_launch(L.calls[0], command, args, envsel, envval)
    if c != "ok":
        return c
    if len(L.handshakes) != 1:
        return "handshake-not-reached"
    if r is not False:
        return "failed-handshake-reported-as-success"
    return "ok"


class _AsyncioShim:
    """server_manager's cleanup uses asyncio.create_task/wait_for; run eagerly"""

    TimeoutError = TimeoutError
    CancelledError = __import__("asyncio").CancelledError

    @staticmethod
    def create_task(coro):
        return coro

    @staticmethod
    async def wait_for(aw, timeout=None):
        return await aw


def runner(command, args, envsel, envval, n_servers):
    """multi-server runner: run_command(command_func, config, names)"""
    servers = {"target": server_entry(command, args, envsel, envval, 0, False)}
    names = ["target"]
    if n_servers == 2:
        servers["second"] = {"command": "second-cmd", "args": ["-v"], "env": {"A": "b"}}
        names.append("second")
    cfg = {"mcpServers": servers}
    _install(cfg)
    got = []

    async def command_func(streams):
        got.append(streams)

    saved = (SMGR.send_initialize, SMGR.os.system, SMGR.anyio.run, SMGR.asyncio)
    SMGR.send_initialize = _mk_send_initialize(_InitResult())
    SMGR.os.system = lambda *a: 0
    SMGR.anyio.run = lambda f, *a, **k: drive(f())
    SMGR.asyncio = _AsyncioShim
    try:
        import io
        import contextlib

        with contextlib.redirect_stdout(io.StringIO()):
            SMGR.run_command(command_func, "/cfg.json", names)
    finally:
        SMGR.send_initialize, SMGR.os.system, SMGR.anyio.run, SMGR.asyncio = saved
    if len(L.calls) != n_servers:
        return "runner-did-not-launch-one-process-per-server"
    c = _check_launch(L.calls[0], command, args, envsel, envval)
    if c != "ok":
        return c
    if n_servers == 2:
        argv, env = L.calls[1]
        if argv != ["second-cmd", "-v"] or env != {"A": "b"}:
            return "second-server-launched-wrongly"
    if len(L.handshakes) != n_servers:
        return "handshake-not-reached"
    if len(got) != 1 or len(got[0]) != n_servers:
        return "command-not-run-with-all-connections"
    return "ok"


# ------------------------------------------------------------------ configuration error classes (native, real files)
def config_errors(workdir):
    import os

    os.makedirs(workdir, exist_ok=True)
    importlib.reload(CONFIG)
    bad = []
    good = os.path.join(workdir, "good.json")
    with open(good, "w") as f:
        _json.dump({"mcpServers": {"a": {"command": "x"}}}, f)
    inv = os.path.join(workdir, "invalid.json")
    with open(inv, "w") as f:
        f.write("{ not json")
    cases = [
        ("missing-file", os.path.join(workdir, "nope.json"), "a", FileNotFoundError),
        ("invalid-json", inv, "a", _json.JSONDecodeError),
        ("unknown-server", good, "zzz", ValueError),
    ]
    for name, path, srv, exc in cases:
        try:
            anyio.run(CONFIG.load_config, path, srv)
            bad.append({"case": name, "reason": "no-exception"})
        except exc:
            pass
        except Exception as e:
            bad.append({"case": name, "reason": "wrong-exception:" + type(e).__name__})
    return {"cases": len(cases), "bad": bad}


# ------------------------------------------------------------------ size / count dimension
from harness import sizes as _sizes  # noqa: E402

_sizes.size_cases(70000, extra=_sizes.ENV_SIZES)


def big_entry(which, k, form, pat, clim=1100):
    """(0) one argument of n characters, (1) n arguments, (2) a command of n characters, (3) an environment value of
    n characters, (4) n environment variables, (5) n OTHER servers in the configuration before the target;
    n = c-1, c, c+1 for the integer constants c of the source (counts limited to 1100)"""
    n = _sizes.pick(_sizes.size_cases(70000 if form in (0, 2, 3) else clim, extra=_sizes.ENV_SIZES if form in (0, 2, 3) else ()), k)
    MATERIALISE[0] = True  # the configuration is concrete here: the file has its real JSON text (and size)
    try:
        return _big_entry(which, n, form, pat)
    finally:
        MATERIALISE[0] = False


def _big_entry(which, n, form, pat):
    command, args, envsel, envval = "srv-cmd", ["--flag", "value"], 2, "v"
    if form == 0:
        args = ["--data", _sizes.long_text(n, pat), "tail"]
    elif form == 1:
        args = ["a%d" % i for i in range(n)]
    elif form == 2:
        command = "/opt/" + _sizes.long_text(n, 0) + "c"
    elif form == 3:
        envval = _sizes.long_text(n, pat)
    if form in (4, 5):
        entry = server_entry(command, args, envsel, envval, 0, False)
        if form == 4:
            entry["env"] = {"K%04d" % i: "v%d" % i for i in range(n)}
        servers = {}
        if form == 5:
            for i in range(n):
                servers["other-%04d" % i] = {"command": "other-%d" % i, "args": ["--n", str(i)]}
        servers["target"] = entry
        _install({"mcpServers": servers})
        params, timeout = drive(CONFIG.load_config("/cfg.json", "target"))
        client = STDIO.StdioClient(params)
        drive(client.__aenter__())
        if len(L.calls) != 1:
            return "not-exactly-one-process"
        argv, env = L.calls[0]
        if argv != [command] + args:
            return "launched-wrong-arguments"
        if form == 4:
            if n and env != entry["env"]:
                return "launched-with-wrong-environment"
            return "ok"
        return _check_launch(L.calls[0], command, args, envsel, envval)
    if which == 0:
        return loader(command, args, envsel, envval, 0, False, True)
    if which == 1:
        return cli_test_server(command, args, envsel, envval, 0)
    return runner(command, args, envsel, envval, 1)
