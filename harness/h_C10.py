"""C10 - library-side serialisers use wire names (aliases) and lose nothing."""
import ast
from symcheck.env import Ticks  # noqa
import asyncio
import importlib
import os
import sys

from harness.sm import *  # noqa
from harness import sm
from harness.h_models import MODELS, fields_of, lossless, pair_order, same_name_pairs, same_json  # noqa

EL = importlib.import_module("chuk_mcp.protocol.types.elicitation")
TT = importlib.import_module("chuk_mcp.protocol.types.tools")
CT = importlib.import_module("chuk_mcp.protocol.types.content")
SAMP = sys.modules["chuk_mcp.protocol.messages.sampling.send_messages"]
ROOTS = sys.modules["chuk_mcp.protocol.messages.roots.send_messages"]
COMP = sys.modules["chuk_mcp.protocol.messages.completions.send_messages"]
INIT = sys.modules["chuk_mcp.protocol.messages.initialize.send_messages"]


def aliased_fields():
    out = []
    for key, cls in MODELS.items():
        for name, wname, ann, req, default in fields_of(cls):
            if wname != name:
                out.append((cls.__name__, name, wname))
    return sorted(set(out))


ALIASED = aliased_fields()
PY_NAMES = sorted({n for _, n, _ in ALIASED})


def wire_names_only(obj, sentinel_key="sentinel"):
    """no dict in the produced wire data carries an aliased value under its Python attribute name"""
    if isinstance(obj, dict):
        for k, v in obj.items():
            if k in PY_NAMES and isinstance(v, dict) and sentinel_key in v:
                return "python-attribute-name-on-the-wire:" + k
            r = wire_names_only(v, sentinel_key)
            if r != "ok":
                return r
    elif isinstance(obj, (list, tuple)):
        for v in obj:
            r = wire_names_only(v, sentinel_key)
            if r != "ok":
                return r
    return "ok"


def find_sentinels(obj, sentinel_key="sentinel"):
    """wire keys under which a {"sentinel": ...} value sits"""
    found = []
    if isinstance(obj, dict):
        for k, v in obj.items():
            if isinstance(v, dict) and sentinel_key in v:
                found.append(k)
            found += find_sentinels(v, sentinel_key)
    elif isinstance(obj, (list, tuple)):
        for v in obj:
            found += find_sentinels(v, sentinel_key)
    return found


class _Stop(Exception):
    pass


class _FakeFuture:
    def __await__(self):
        raise _Stop()
        yield


def elicitation_request(message, leaf, title):
    """ElicitationHandler.request_user_input: the request that goes on the wire"""
    sent = []

    async def send(msg):
        sent.append(msg)
        raise _Stop()

    h = EL.ElicitationHandler(send)
    params = EL.ElicitationParams(message=message, schema={"type": "object", "sentinel": leaf}, title=title)
    saved = asyncio.Future
    asyncio.Future = _FakeFuture
    try:
        try:
            drive(h.request_user_input(params))
        except _Stop:
            pass
    finally:
        asyncio.Future = saved
    if len(sent) != 1:
        return "request-not-sent-once"
    d = sent[0]
    r = wire_names_only(d)
    if r != "ok":
        return r
    p = d.get("params") or {}
    if find_sentinels(d) != ["schema"]:
        return "aliased-member-not-under-its-wire-name"
    if p.get("message") != message or p.get("title") != title or not same_json(p.get("schema"), {"type": "object", "sentinel": leaf}):
        return "member-lost-or-changed"
    if d.get("method") != "elicitation/create" or d.get("jsonrpc") != "2.0" or "id" not in d:
        return "not-a-request"
    if h._pending_elicitations:
        return "pending-table-not-cleaned"
    return "ok"


def tool_result_dict(text, leaf, is_error):
    """tool_result_to_dict with structured content carrying a schema"""
    tr = TT.ToolResult(
        content=[CT.TextContent(type="text", text=text)],
        structuredContent=[TT.StructuredContent(type="structured", data={"v": leaf}, schema={"type": "object", "sentinel": leaf}, mimeType="application/json")],
        isError=is_error,
    )
    d = TT.tool_result_to_dict(tr)
    r = wire_names_only(d)
    if r != "ok":
        return r
    if find_sentinels(d) != ["schema"]:
        return "aliased-member-not-under-its-wire-name"
    sc = (d.get("structuredContent") or [{}])[0]
    if not same_json(sc.get("data"), {"v": leaf}) or sc.get("mimeType") != "application/json" or d.get("isError") is not is_error:
        return "member-lost-or-changed"
    if (d.get("content") or [{}])[0].get("text") != text:
        return "member-lost-or-changed"
    back = TT.parse_tool_result(d)
    if back.structuredContent[0].schema_ != {"type": "object", "sentinel": leaf}:
        return "own-output-does-not-parse-back"
    return "ok"


def content_dict(which, s, leaf):
    if which == 0:
        c, want = CT.TextContent(type="text", text=s), {"type": "text", "text": s}
    elif which == 1:
        c, want = CT.ImageContent(type="image", data=s, mimeType="image/png"), {"type": "image", "data": s, "mimeType": "image/png"}
    elif which == 2:
        c, want = CT.AudioContent(type="audio", data=s, mimeType="audio/wav"), {"type": "audio", "data": s, "mimeType": "audio/wav"}
    else:
        c = CT.EmbeddedResource(type="resource", resource=CT.TextResourceContents(uri=s, text="t"))
        want = {"type": "resource", "resource": {"uri": s, "text": "t"}}
    d = CT.content_to_dict(c)
    if not same_json(d, want):
        return "content-dict-differs"
    return "ok"


def _written_request(call):
    out = run_stub([], call)
    if not out.wire:
        return None
    return dump(out.wire[0][1])


def sampling_request(text, name, leaf):
    msgs = [SAMP.SamplingMessage(role="user", content=CT.TextContent(type="text", text=text))]
    prefs = SAMP.ModelPreferences(hints=[SAMP.ModelHint(name=name)], costPriority=0.5)
    d = _written_request(lambda r, w: SAMP.send_sampling_create_message(r, w, msgs, 7, model_preferences=prefs, system_prompt=text, metadata={"meta": {"sentinel": leaf}}, timeout=Ticks(5)))
    if d is None:
        return "nothing-written"
    p = d.get("params") or {}
    m0 = (p.get("messages") or [{}])[0]
    if m0.get("role") != "user" or (m0.get("content") or {}).get("type") != "text" or (m0.get("content") or {}).get("text") != text:
        return "message-content-lost"
    if ((p.get("modelPreferences") or {}).get("hints") or [{}])[0].get("name") != name:
        return "model-preferences-lost"
    if p.get("maxTokens") != 7 or p.get("systemPrompt") != text:
        return "wire-name-or-value-wrong"
    if not same_json(p.get("metadata"), {"meta": {"sentinel": leaf}}):
        return "caller-metadata-changed"
    return "ok"


def completion_request(name, value, uri):
    d = _written_request(lambda r, w: COMP.send_completion_complete(r, w, COMP.ResourceReference(type="ref/resource", uri=uri), COMP.ArgumentInfo(name=name, value=value), timeout=Ticks(5)))
    if d is None:
        return "nothing-written"
    p = d.get("params") or {}
    if not same_json(p.get("ref"), {"type": "ref/resource", "uri": uri}) or not same_json(p.get("argument"), {"name": name, "value": value}):
        return "completion-params-differ"
    return "ok"


def roots_response(name, rid):
    roots = [ROOTS.Root(uri="file:///a", name=name), ROOTS.Root(uri="file:///b")]
    m = drive(ROOTS.handle_roots_list_request(roots, rid))
    d = m.model_dump(exclude_none=True)
    rs = (d.get("result") or {}).get("roots")
    if not isinstance(rs, list) or len(rs) != 2 or rs[0].get("uri") != "file:///a" or rs[0].get("name") != name or rs[1].get("uri") != "file:///b":
        return "roots-lost"
    if "id" not in d or not same_json(d["id"], rid):
        return "id-changed"
    return "ok"


def initialize_request(v):
    d = _written_request(lambda r, w: INIT.send_initialize(r, w, timeout=Ticks(5), supported_versions=[v]))
    if d is None:
        return "nothing-written"
    p = d.get("params") or {}
    if p.get("protocolVersion") != v or not isinstance(p.get("clientInfo"), dict) or not isinstance(p.get("capabilities"), dict):
        return "initialize-params-wire-names"
    if "name" not in p["clientInfo"] or "version" not in p["clientInfo"]:
        return "client-info-lost"
    return "ok"


DRIVERS = {
    "protocol/types/elicitation.py:ElicitationHandler.request_user_input": "elicitation_request",
    "protocol/types/tools.py:tool_result_to_dict": "tool_result_dict",
    "protocol/types/content.py:content_to_dict": "content_dict",
    "protocol/messages/sampling/send_messages.py:send_sampling_create_message": "sampling_request",
    "protocol/messages/completions/send_messages.py:send_completion_complete": "completion_request",
    "protocol/messages/roots/send_messages.py:handle_roots_list_request": "roots_response",
    "protocol/messages/initialize/send_messages.py:send_initialize": "initialize_request",
    "server/protocol_handler.py:ProtocolHandler._handle_initialize": "(C04/C02: initialize result)",
    "protocol/messages/send_message.py:_await_response": "(debug log only)",
    "protocol/messages/send_message.py:_process_response": "(C01: result extraction)",
    "transports/http/transport.py:StreamableHTTPTransport._send_message_internal": "(C11/C15: message objects have no aliases)",
    "transports/sse/transport.py:SSETransport._send_message_via_http": "(C12/C15)",
    "transports/stdio/stdio_client.py:StdioClient._stdin_writer": "(C06)",
    "protocol/messages/json_rpc_message.py:JSONRPCMessageWrapper.model_dump": "(wrapper delegates)",
    "protocol/messages/json_rpc_message.py:JSONRPCMessageWrapper.model_dump_json": "(wrapper delegates)",
    "protocol/messages/json_rpc_message.py:JSONRPCMessage.model_dump": "(C02)",
    "protocol/messages/json_rpc_message.py:JSONRPCMessage.model_dump_json": "(C02)",
    "protocol/messages/sampling/send_messages.py:SamplingHandler.handle_create_message_request": "(builds the dict by hand from a provider result; no aliased model involved)",
}


def discover_serialisers():
    """AST walk: every function outside the base module that calls .model_dump( / .model_dump_json("""
    import chuk_mcp

    root = os.path.dirname(chuk_mcp.__file__)
    found = set()
    for dp, dn, fn in os.walk(root):
        for f in fn:
            if not f.endswith(".py") or f == "mcp_pydantic_base.py":
                continue
            path = os.path.join(dp, f)
            try:
                tree = ast.parse(open(path).read())
            except SyntaxError:
                continue
            rel = os.path.relpath(path, root)

            def visit(node, stack):
                for ch in ast.iter_child_nodes(node):
                    if isinstance(ch, (ast.FunctionDef, ast.AsyncFunctionDef, ast.ClassDef)):
                        visit(ch, stack + [ch.name])
                    else:
                        if isinstance(ch, ast.Call) and isinstance(ch.func, ast.Attribute) and ch.func.attr in ("model_dump", "model_dump_json") and stack:
                            found.add(rel + ":" + ".".join(stack))
                        visit(ch, stack)

            visit(tree, [])
    return sorted(found)


# ------------------------------------------------------------------ size dimension for the library-side serialisers
from harness import sizes as _sizes  # noqa: E402

_sizes.size_cases(70000, extra=_sizes.ENV_SIZES)


def ser_long(which, k, pat):
    t = _sizes.long_text(_sizes.pick(_sizes.size_cases(70000, extra=_sizes.ENV_SIZES), k), pat)
    if which == 0:
        return elicitation_request(t, t, t or "t")
    if which == 1:
        return tool_result_dict(t, 7, False)
    if which == 2:
        return content_dict(0, t, 0)
    if which == 3:
        return sampling_request(t, t, 7)
    if which == 4:
        return completion_request(t, t, t)
    if which == 5:
        return roots_response(t or "n", t or "r")
    return initialize_request(t or "v")
