"""C07 - an error response always surfaces as a classified exception carrying its code."""
from harness.sm import *  # noqa
from symcheck.env import Ticks  # noqa
from harness import sm
from harness.h_C01 import HELPERS, helper_args, BOOL_HELPERS, REF_NON_RETRYABLE, _Lazy, _LazyErr, _LazyList2, expected_method

E_ = ERR


def named_codes():
    """Upper-case int constants of types/errors.py except range markers (discovered)."""
    res = {}
    for n, v in vars(E_).items():
        if n.isupper() and type(v) is int and not n.endswith(("_START", "_END")):
            res[n] = v
    return res


NAMED = named_codes()
NAMED_VALUES = sorted(set(NAMED.values()))


def sets(code):
    """(a) the classification is a total function; documented sets disjoint; every named code in exactly one."""
    inN = code in E_.NON_RETRYABLE_ERRORS
    inR = code in E_.RETRYABLE_ERRORS
    if inN and inR:
        return "sets-overlap"
    r = E_.is_retryable_error(code)
    if type(r) is not bool:
        return "classification-not-bool"
    if r == inN:
        return "classification-disagrees-with-permanent-set"
    ref = code in REF_NON_RETRYABLE
    if inN != ref:
        return "permanent-set-differs-from-documented-set"
    named = False
    for v in NAMED_VALUES:
        if code == v:
            named = True
    if named and not (inN or inR):
        return "named-code-in-neither-set"
    if inR and not named:
        return "retryable-set-has-unnamed-code"
    return "ok"


def _err_msg(code, msel, message, dsel, leaf, rid="r"):
    err = {"code": code}
    if msel == 1:
        err["message"] = message
    else:
        err["message"] = "E"
    if dsel == 1:
        err["data"] = leaf
    elif dsel == 2:
        err["data"] = {"a": [None, leaf]}
    elif dsel == 3:
        err["data"] = None
    return JSONRPCMessage(jsonrpc="2.0", id=rid, error=err)


def _judge_exc(out, code, message=None):
    if out.kind == "result":
        return "error-completed-normally"
    if out.kind not in ("retryable", "nonretryable"):
        return "unclassified:" + str(out.kind) + ":" + str(out.text)
    # exactly one of the two classes
    if isinstance(out.exc, E_.RetryableError) and isinstance(out.exc, E_.NonRetryableError):
        return "both-classes"
    want = "nonretryable" if code in REF_NON_RETRYABLE else "retryable"
    if out.kind != want:
        return "wrong-class:got-" + out.kind
    if type(out.code) is not int or out.code != code:
        return "code-not-carried"
    if message is not None and message not in out.text:
        return "message-not-carried"
    return "ok"


def process(code, msel, message, dsel, leaf):
    """(b) _process_response on an error message, any integer code."""
    m = _err_msg(code, msel, message, dsel, leaf)
    out = Outcome()
    classify(out, lambda: SM._process_response(m))
    return _judge_exc(out, code, message if msel == 1 else "E")


def process_nomsg(code):
    """error object without a message member: still classified with the code (unified message type allows building it only via specific types - use a stand-in object)."""

    class R:
        error = {"code": code}
        result = None

    out = Outcome()
    classify(out, lambda: SM._process_response(R()))
    return _judge_exc(out, code)


def process_nocode():
    class R:
        error = {"message": "x"}
        result = None

    out = Outcome()
    classify(out, lambda: SM._process_response(R()))
    if out.kind not in ("retryable", "nonretryable"):
        return "unclassified:" + str(out.kind)
    return "ok"


def api(code, dsel, leaf):
    """(c) through send_message: matching error with symbolic code after a distractor."""
    script = [(1, build(K_NOTIF, 0, "rid-1")), (2, _err_msg(code, 0, "", dsel, leaf, "rid-1"))]
    out = run_stub(script, lambda r, w: SM.send_message(r, w, "m", None, timeout=Ticks(100), message_id="rid-1"))
    return _judge_exc(out, code, "E")


def helper(name, code):
    fn = HELPERS[name]
    kw = helper_args(fn)
    items = [(1, _Lazy(K_SAMEID_REQ, 0)), (2, _LazyErr(code))]
    out = run_stub(_LazyList2(items), lambda r, w: fn(r, w, timeout=Ticks(100), **kw))
    if name in BOOL_HELPERS:
        if out.kind != "result" or out.value is not False:
            return "bool-helper-did-not-report-false:" + str(out.kind)
        return "ok"
    if name.startswith("send_initialize"):
        if out.kind == "result":
            return "error-completed-normally"
        if out.kind == "raised":
            if out.text != "VersionMismatchError":
                return "initialize-unexpected-exception:" + str(out.text)
            return "ok"
        return _judge_exc(out, code)
    return _judge_exc(out, code)


# ------------------------------------------------------------------ size dimension: long error messages / data
from symcheck.consts import size_cases, pick  # noqa: E402

MSG_SIZES = size_cases(70000)


def long_text(n, pat):
    if n == 0:
        return ""
    if pat == 0:
        return "x" * n
    if pat == 1:
        return "é" * n
    if pat == 2:
        return "x" * (n - 1) + "é"      # a 2-byte character straddling byte n
    if pat == 3:
        return "€" + "x" * (n - 1)
    return "\U0001F600" * n


def process_long(code, k, pat, in_data):
    text = long_text(pick(MSG_SIZES, k), pat)
    m = _err_msg(code, 0 if in_data else 1, text, 1 if in_data else 0, text)
    out = Outcome()
    classify(out, lambda: SM._process_response(m))
    r = _judge_exc(out, code, "E" if in_data else text)
    if r != "ok":
        return r
    if not in_data and text != "" and out.text.count(text) != 1:
        return "message-not-carried-once"
    return "ok"


def api_long(code, k, pat):
    text = long_text(pick(MSG_SIZES, k), pat)
    script = [(1, build(K_NOTIF, 0, "rid-1")), (2, _err_msg(code, 1, text, 0, None, "rid-1"))]
    out = run_stub(script, lambda r, w: SM.send_message(r, w, "m", None, timeout=Ticks(100), message_id="rid-1"))
    return _judge_exc(out, code, text)


# ------------------------------------------------------------------ content corpus: messages / data that are "active" text
from harness.sizes import pick_text, N_TEXTS  # noqa: E402,F401


def process_text(code, i, in_data):
    text = pick_text(i)
    m = _err_msg(code, 0 if in_data else 1, text, 1 if in_data else 0, text)
    out = Outcome()
    classify(out, lambda: SM._process_response(m))
    r = _judge_exc(out, code, "E" if in_data else text)
    if r != "ok":
        return r
    if not in_data and text != "" and out.text.count(text) < 1:
        return "message-not-carried"
    return "ok"


def api_text(code, i):
    text = pick_text(i)
    script = [(1, build(K_NOTIF, 0, "rid-1")), (2, _err_msg(code, 1, text, 0, None, "rid-1"))]
    out = run_stub(script, lambda r, w: SM.send_message(r, w, "m", None, timeout=Ticks(100), message_id="rid-1"))
    return _judge_exc(out, code, text)
