"""C01 - a request completes only with the response that bears its own id."""
from harness.sm import *  # noqa
from symcheck.env import Ticks  # noqa
from harness import sm

RID = "rid-1"
METHOD = "tools/list"
PARAMS = {"a": 1}


def _script(kinds, gaps, rid, token=None):
    ts = abs_ticks(gaps)
    return [(ts[i], build(kinds[i], i, rid, token)) for i in range(len(kinds))]


def _expected(kinds, ts, T):
    for i in range(len(kinds)):
        if kinds[i] == K_RESULT and ts[i] < T:
            return ("result", i)
        if kinds[i] == K_ERROR and ts[i] < T:
            return ("retryable", i)
    return ("timeout", -1)


def _judge_sched(out, kinds, ts, T, rid, method, params):
    exp, idx = _expected(kinds, ts, T)
    if out.kind == "result" and isinstance(out.value, dict) and "method" in out.value:
        return "returned-nonresponse:has-method"
    if out.kind == "result" and isinstance(out.value, dict) and ("batch" in out.value or "other" in out.value):
        return "returned-foreign-payload"
    if out.kind != exp:
        return "wrong-outcome:got-" + str(out.kind) + "-expected-" + exp
    if exp == "result" and not same_json(out.value, {"v": idx}):
        return "wrong-result-payload"
    if exp == "retryable" and out.code != ERR_CODE:
        return "wrong-error-code"
    if out.done > T:
        return "ended-after-deadline"
    if exp == "timeout" and out.done != T:
        return "timeout-not-at-deadline"
    if exp != "timeout" and out.done != ts[idx]:
        return "completed-at-wrong-instant"
    w = out.wire
    if len(w) != 1:
        return "wire:not-exactly-one-message"
    d = dump(w[0][1])
    want = {"jsonrpc": "2.0", "id": rid, "method": method}
    if params is not None:
        want["params"] = params
    if not same_json(d, want):
        return "wire:request-differs"
    if out.first_rx_wire != 1:
        return "wire:request-not-written-before-wait"
    return "ok"


def sched(kinds, gaps, T):
    """Schedule family: concrete kind tuple, symbolic gaps and timeout (ticks)."""
    ts = abs_ticks(gaps)
    script = _script(kinds, gaps, RID)
    out = run_stub(script, lambda r, w: SM.send_message(r, w, METHOD, dict(PARAMS), timeout=Ticks(T), message_id=RID))
    return _judge_sched(out, kinds, ts, T, RID, METHOD, PARAMS)


def sched_real(kinds, gaps, T):
    from symcheck.env import TICKS_PER_SEC

    ts = abs_ticks(gaps)
    script = _script(kinds, gaps, RID)
    out = sm.run_real(
        script,
        lambda r, w: SM.send_message(r, w, METHOD, dict(PARAMS), timeout=T / TICKS_PER_SEC, message_id=RID),
        T,
    )
    return _judge_sched(out, kinds, ts, T, RID, METHOD, PARAMS)


def _tok(wire_items):
    d = dump(wire_items[0][1])
    return ((d.get("params") or {}).get("_meta") or {}).get("progressToken")


class _LazyTok(list):
    def __getitem__(self, n):
        t, it = list.__getitem__(self, n)
        if isinstance(it, _Lazy):
            it = build(it.k, it.i, RID, _tok(ENV.wire))
        return (t, it)


def sched_cb(kinds, gaps, T, real=False):
    """Same family with a progress callback installed (a progress token is added to the request):
    the id filter must behave identically."""
    ts = abs_ticks(gaps)
    rec = []

    async def cb(p, t, m):
        rec.append(p)

    call = lambda r, w, tmo: SM.send_message(r, w, METHOD, dict(PARAMS), timeout=tmo, message_id=RID, progress_callback=cb)
    if not real:
        items = [(ts[i], _Lazy(kinds[i], i)) for i in range(len(kinds))]
        out = run_stub(_LazyTok(items), lambda r, w: call(r, w, T))
    else:
        from symcheck.env import TICKS_PER_SEC

        script = [(ts[i], (lambda w, i=i: build(kinds[i], i, RID, _tok(w)))) for i in range(len(kinds))]
        out = sm.run_real(script, lambda r, w: call(r, w, T / TICKS_PER_SEC), T)
    if len(out.wire) < 1:
        return "wire:nothing-written"
    tok = _tok(out.wire)
    if not isinstance(tok, str) or not tok:
        return "wire:no-progress-token"
    want = dict(PARAMS)
    want["_meta"] = {"progressToken": tok}
    r = _judge_sched(out, kinds, ts, T, RID, METHOD, want)
    if r != "ok":
        return r
    n_ok = 0
    exp, idx = _expected(kinds, ts, T)
    for i in range(len(kinds)):
        if kinds[i] == K_PROG_OK and ((exp == "timeout" and ts[i] < T) or (exp != "timeout" and i < idx)):
            n_ok += 1
    if len(rec) != n_ok:
        return "progress-callback-count"
    return "ok"


def sched_cb_real(kinds, gaps, T):
    return sched_cb(kinds, gaps, T, real=True)


# ------------------------------------------------------------------ id family (backend F)
def idfam(kinds, gaps, T, rid, other):
    """Symbolic request id (str) and symbolic distractor id (str or int)."""
    ts = abs_ticks(gaps)
    script = []
    for i in range(len(kinds)):
        k = kinds[i]
        if k == K_OTHER_RESP:
            m = JSONRPCMessage(jsonrpc="2.0", id=other, result={"other": i})
        else:
            m = build(k, i, rid)
        script.append((ts[i], m))
    out = run_stub(script, lambda r, w: SM.send_message(r, w, METHOD, dict(PARAMS), timeout=Ticks(T), message_id=rid))
    return _judge_sched(out, kinds, ts, T, rid, METHOD, PARAMS)


def idfam_real(kinds, gaps, T, rid, other):
    from symcheck.env import TICKS_PER_SEC

    ts = abs_ticks(gaps)
    script = []
    for i in range(len(kinds)):
        k = kinds[i]
        if k == K_OTHER_RESP:
            m = JSONRPCMessage(jsonrpc="2.0", id=other, result={"other": i})
        else:
            m = build(k, i, rid)
        script.append((ts[i], m))
    out = sm.run_real(
        script,
        lambda r, w: SM.send_message(r, w, METHOD, dict(PARAMS), timeout=T / TICKS_PER_SEC, message_id=rid),
        T,
    )
    return _judge_sched(out, kinds, ts, T, rid, METHOD, PARAMS)


def autoid(kinds, gaps, T):
    """message_id omitted/empty: the library generates a uuid; responses quote what was written."""
    ts = abs_ticks(gaps)

    def lazy(k, i):
        return lambda wire=None: build(k, i, dump(ENV.wire[0][1])["id"])

    script = [(ts[i], None) for i in range(len(kinds))]
    # the id is only known after the request was written: build lazily at receive time
    items = []
    for i in range(len(kinds)):
        items.append((ts[i], _Lazy(kinds[i], i)))
    out = run_stub(_LazyList(items), lambda r, w: SM.send_message(r, w, METHOD, dict(PARAMS), timeout=Ticks(T), message_id=""))
    if len(out.wire) < 1:
        return "wire:nothing-written"
    rid = dump(out.wire[0][1]).get("id")
    if not isinstance(rid, str) or len(rid) < 8:
        return "wire:generated-id-not-a-uuid-string"
    return _judge_sched(out, kinds, ts, T, rid, METHOD, PARAMS)


class _Lazy:
    def __init__(self, k, i):
        self.k, self.i = k, i


class _LazyList(list):
    """(tick, _Lazy) pairs are resolved against the written request when indexed."""

    def __getitem__(self, n):
        t, it = list.__getitem__(self, n)
        if isinstance(it, _Lazy):
            it = build(it.k, it.i, dump(ENV.wire[0][1])["id"])
        return (t, it)


# ------------------------------------------------------------------ method / params family (backend F)
def shape(sel, leaf):
    if sel == 0:
        return None
    if sel == 1:
        return {}
    if sel == 2:
        return {"a": leaf}
    if sel == 3:
        return {"_meta": {"k": leaf}}
    if sel == 4:
        return {"a": None, "b": {"c": None}}
    return {"a": [None, leaf]}


def methfam(psel, method, leaf, gap, T):
    params = shape(psel, leaf)
    import copy

    want = copy.deepcopy(params)
    script = [(gap, build(K_RESULT, 0, RID))]
    out = run_stub(script, lambda r, w: SM.send_message(r, w, method, params, timeout=Ticks(T), message_id=RID))
    return _judge_sched(out, (K_RESULT,), [gap], T, RID, method, want)


# ------------------------------------------------------------------ helpers
import inspect
import pkgutil
import importlib


def discover_helpers():
    """Every send_* coroutine of chuk_mcp.protocol.messages that takes (read, write)."""
    M = importlib.import_module("chuk_mcp.protocol.messages")
    found = {}
    for mi in pkgutil.walk_packages(M.__path__, M.__name__ + "."):
        m = importlib.import_module(mi.name)
        for n, o in vars(m).items():
            if n.startswith("send_") and inspect.iscoroutinefunction(o) and o.__module__ == m.__name__:
                ps = list(inspect.signature(o).parameters)
                if ps[:2] == ["read_stream", "write_stream"] and n != "send_message":
                    found[n] = o
    return dict(sorted(found.items()))


HELPERS = discover_helpers()

# concrete arguments for required parameters, by parameter name (type-directed where unknown)
ARG_BY_NAME = {
    "ref": {"type": "ref/prompt", "name": "p"},
    "argument": {"name": "a", "value": "v"},
    "level": "info",
    "name": "n",
    "arguments": {"x": 1},
    "uri": "file:///x",
    "messages": [{"role": "user", "content": {"type": "text", "text": "hi"}}],
    "max_tokens": 5,
}
BOOL_HELPERS = ("send_ping", "send_resources_subscribe", "send_resources_unsubscribe")


def helper_args(fn):
    kw = {}
    for n, p in list(inspect.signature(fn).parameters.items())[2:]:
        if p.default is inspect.Parameter.empty and p.kind in (p.POSITIONAL_OR_KEYWORD, p.KEYWORD_ONLY):
            if n not in ARG_BY_NAME:
                raise HarnessError("no argument recipe for parameter %s of %s" % (n, fn.__name__))
            kw[n] = ARG_BY_NAME[n]
    return kw


def expected_method(name):
    """The wire method a helper must use: looked up in the library's own MessageMethod table."""
    MM = sys.modules["chuk_mcp.protocol.messages.message_method"].MessageMethod
    table = {
        "send_completion_complete": "completion/complete",
        "send_initialize": "initialize",
        "send_initialize_with_client_tracking": "initialize",
        "send_logging_set_level": "logging/setLevel",
        "send_ping": "ping",
        "send_prompts_get": "prompts/get",
        "send_prompts_list": "prompts/list",
        "send_resources_list": "resources/list",
        "send_resources_read": "resources/read",
        "send_resources_subscribe": "resources/subscribe",
        "send_resources_templates_list": "resources/templates/list",
        "send_resources_unsubscribe": "resources/unsubscribe",
        "send_roots_list": "roots/list",
        "send_sampling_create_message": "sampling/createMessage",
        "send_tools_call": "tools/call",
        "send_tools_list": "tools/list",
    }
    if name in table:
        return table[name]
    # unknown (new) helper: derive from the name and require the value to be a MessageMethod member
    guess = name[len("send_"):].replace("_", "/")
    for m in MM:
        if m.value.lower().replace("_", "/") == guess.lower():
            return m.value
    return None


def helper(name, gaps, T, code):
    """A helper is fed [same-id server request, matching error(code)] and must end with
    the classified error (False for the bool helpers), never with the distractor."""
    fn = HELPERS[name]
    kw = helper_args(fn)
    ts = abs_ticks(gaps)
    items = [(ts[0], _Lazy(K_SAMEID_REQ, 0)), (ts[1], _LazyErr(code))]
    out = run_stub(_LazyList2(items), lambda r, w: fn(r, w, timeout=Ticks(T), **kw))
    return _judge_helper(out, name, ts, T, code)


class _LazyErr:
    def __init__(self, code):
        self.code = code


class _LazyList2(list):
    def __getitem__(self, n):
        t, it = list.__getitem__(self, n)
        if isinstance(it, _Lazy):
            it = build(it.k, it.i, dump(ENV.wire[0][1])["id"])
        elif isinstance(it, _LazyErr):
            it = build(K_ERROR, 1, dump(ENV.wire[0][1])["id"], code=it.code)
        return (t, it)


def _judge_helper(out, name, ts, T, code):
    nonretry = code in REF_NON_RETRYABLE
    if ts[1] < T:
        if name in BOOL_HELPERS:
            if out.kind != "result" or out.value is not False:
                return "bool-helper-did-not-report-false:" + str(out.kind)
        elif name.startswith("send_initialize"):
            # initialization re-raises the classified error (or a version mismatch built from it)
            if out.kind not in ("retryable", "nonretryable", "raised"):
                return "initialize-swallowed-error:" + str(out.kind)
            if out.kind == "raised" and out.text not in ("VersionMismatchError",):
                return "initialize-unexpected-exception:" + str(out.text)
        else:
            if out.kind == "result":
                return "error-became-result"
            if out.kind != ("nonretryable" if nonretry else "retryable"):
                return "wrong-class:" + str(out.kind)
            if out.code != code:
                return "wrong-code"
    else:
        if name in BOOL_HELPERS:
            if not (out.kind == "timeout" or (out.kind == "result" and out.value is False)):
                return "bool-helper-timeout:" + str(out.kind)
        elif out.kind != "timeout":
            return "expected-timeout:got-" + str(out.kind)
    if out.done > T:
        return "ended-after-deadline"
    reqs = [dump(m) for _, m in out.wire]
    if len(reqs) != 1:
        return "wire:not-exactly-one-message"
    em = expected_method(name)
    if em is None:
        return "wire:unknown-helper-method"
    if reqs[0].get("method") != em or "id" not in reqs[0] or reqs[0].get("jsonrpc") != "2.0":
        return "wire:wrong-request"
    return "ok"


# The documented permanent (non-retryable) codes - the reference of the oracle, taken from
# the documentation strings of protocol/types/errors.py at the pinned commit.
REF_NON_RETRYABLE = set({-32700, -32600, -32601, -32602, -32003, -32005, -32006, -32007, -32008, -32000})  # a plain set: CrossHair decides membership of a symbolic int in a set, not in a frozenset


# ------------------------------------------------------------------ size dimension: long ids, long params, many distractors
from symcheck.consts import size_cases, pick  # noqa: E402

for _lim in (410, 1100, 70000):
    size_cases(_lim)  # scanned at import time (a scan inside a traced path would be repeated per path)

ID_SIZES = size_cases(70000)       # id lengths: every constant of the source tree +-1 (regenerated per run)
COUNT_SIZES = size_cases(1100)     # number of distractors before the answer


def _long_ids(n, where):
    P = "p" * n
    if where == 0:
        return P + "A", P + "B"          # differ in the last character only
    if where == 1:
        return "A" + P, "B" + P          # differ in the first character only
    if where == 2:
        return P + "A", P + "AB"         # the distractor extends the request's id
    return P + "A" + P, P + "B" + P      # differ in the middle


def idlong(kinds, k, where):
    rid, other = _long_ids(pick(ID_SIZES, k), where)
    return idfam(kinds, [1] * len(kinds), 100, rid, other)


def idlong_real(kinds, k, where):
    rid, other = _long_ids(pick(ID_SIZES, k), where)
    return idfam_real(kinds, [1] * len(kinds), 100, rid, other)


def paramlong(k, fill):
    n = pick(ID_SIZES, k)
    leaf = ("x" if fill == 0 else ("é" if fill == 1 else "\U0001F600")) * n
    return methfam(2, "tools/call", leaf, 1, 100)


def many(kind, k, T, lim=1100):
    """k distractors of one kind (one per tick), then the matching result"""
    n = pick(size_cases(lim), k)
    script = [(1 + i, build(kind, i, RID)) for i in range(n)] + [(1 + n, build(K_RESULT, n, RID))]
    kinds = (kind,) * n + (K_RESULT,)
    # the stub world delays the i-th scripted item by (i+1)/8 tick (tie-free clock): beyond 7 items that crosses ticks
    from symcheck.env import fine_arrival, SUB
    ts = [fine_arrival(script[i][0], i) // SUB for i in range(len(script))]
    out = run_stub(script, lambda r, w: SM.send_message(r, w, METHOD, dict(PARAMS), timeout=Ticks(T), message_id=RID))
    return _judge_sched(out, kinds, ts, T, RID, METHOD, PARAMS)



def idnear(kinds, i, swap, real=False):
    """request id / distractor id pairs that a lossy comparison could identify (see h_C18.pick_near)"""
    from harness.h_C18 import pick_near

    a, b = pick_near(i)
    if swap:
        a, b = b, a
    if a == 0 or a == "":
        return "ok"
    return (idfam_real if real else idfam)(kinds, [1] * len(kinds), 100, a, b)


def idnear_real(kinds, i, swap):
    return idnear(kinds, i, swap, real=True)


# ------------------------------------------------------------------ an earlier call on the same pair of streams
def _two_calls(first_end, reuse, g0, g1, g2, T1, real):
    """call 1 (id A, timeout T1) ends by (0) timeout, (1) a matching error, (2) a matching result; call 2 follows on
    the SAME streams with the same id (reuse) or another one, and two responses arrive for it (for another id: a late
    response to A first).  Call 2 completes with the FIRST incoming response bearing its id."""
    from symcheck.env import TICKS_PER_SEC

    idA = "call-A"
    id2 = idA if reuse else "call-B"
    script = []
    if first_end == 1:
        script.append((g0, JSONRPCMessage(jsonrpc="2.0", id=idA, error={"code": ERR_CODE, "message": "E"})))
    elif first_end == 2:
        script.append((g0, JSONRPCMessage(jsonrpc="2.0", id=idA, result={"first": True})))
    base = (T1 if first_end == 0 else g0) + 1
    a, b = base + g1, base + g1 + g2
    if reuse:
        script.append((a, JSONRPCMessage(jsonrpc="2.0", id=id2, result={"v": 1})))
        script.append((b, JSONRPCMessage(jsonrpc="2.0", id=id2, result={"v": 2})))
    else:
        script.append((a, JSONRPCMessage(jsonrpc="2.0", id=idA, result={"late": True})))
        script.append((b, JSONRPCMessage(jsonrpc="2.0", id=id2, result={"v": 1})))
    T2 = 400

    async def both(r, w):
        res = {}
        try:
            v = await SM.send_message(r, w, METHOD, dict(PARAMS), timeout=(T1 / TICKS_PER_SEC if real else Ticks(T1)), message_id=idA)
            res["first"] = ("result", v)
        except TimeoutError:
            res["first"] = ("timeout", None)
        except ERR.RetryableError as e:
            res["first"] = ("retryable", e.code)
        try:
            v = await SM.send_message(r, w, METHOD, dict(PARAMS), timeout=(T2 / TICKS_PER_SEC if real else Ticks(T2)), message_id=id2)
            res["second"] = ("result", v)
        except TimeoutError:
            res["second"] = ("timeout", None)
        except ERR.RetryableError as e:
            res["second"] = ("retryable", e.code)
        return res

    out = sm.run_real(script, both, T1 + T2 + 700) if real else run_stub(script, both)
    if out.kind != "result":
        return "calls-ended-otherwise:" + str(out.kind) + ":" + str(out.text)
    res = out.value
    want1 = ("timeout", "retryable", "result")[first_end]
    if res.get("first", (None,))[0] != want1:
        return "first-call:wrong-outcome:" + str(res.get("first", (None,))[0])
    k2, v2 = res.get("second", (None, None))
    if k2 != "result":
        return "second-call:did-not-complete-with-its-response:" + str(k2)
    if not same_json(v2, {"v": 1}):
        return "second-call:not-the-first-response-bearing-its-id"
    reqs = [dump(m) for _, m in out.wire]
    if len(reqs) != 2 or reqs[0].get("id") != idA or reqs[1].get("id") != id2:
        return "wire:not-one-request-per-call"
    return "ok"


def two_calls(first_end, reuse, g0, g1, g2, T1):
    return _two_calls(first_end, reuse, g0, g1, g2, T1, False)


def two_calls_real(first_end, reuse, g0, g1, g2, T1):
    return _two_calls(first_end, reuse, g0, g1, g2, T1, True)
