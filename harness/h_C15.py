"""C15 - client-observable behaviour does not depend on the transport carrying it (object level)."""
import importlib

from symcheck.env import drive, dump, same_json, HarnessError
from harness.stdio_fake import make_client, Rec, STDIO
from harness import h_C11 as H11
from harness import h_C12 as H12
from harness.h_C01 import shape

BASE = importlib.import_module("chuk_mcp.protocol.mcp_pydantic_base")
JM = importlib.import_module("chuk_mcp.protocol.messages.json_rpc_message")
HTTP, SSE = H11.HTTP, H12.SSE


class _Tok:
    """JSON text decoding is stubbed: the carriers' codecs are compiled code (outside the claim); the token maps
    to the decoded value the server sent"""

    def __init__(self):
        self.values = {}

    def put(self, d):
        k = "{#%d}" % len(self.values)
        self.values[k] = d
        return k


class _JsonStub:
    def __init__(self, tok, real):
        self.tok, self.real = tok, real
        self.JSONDecodeError = getattr(real, "JSONDecodeError", ValueError)

    def loads(self, s):
        s2 = s.strip() if isinstance(s, str) else s
        if s2 in self.tok.values:
            return self.tok.values[s2]
        return self.real.loads(s)

    def dumps(self, o, **kw):
        return self.real.dumps(o, **kw)


def pick_int_id(i):
    # integer ids by selector: every carrier stringifies the id for its pending-request table, and str() of a
    # symbolic integer makes the engine enumerate digit strings
    if i == 0:
        return 0
    if i == 1:
        return -1
    if i == 2:
        return 5
    if i == 3:
        return 2 ** 63
    return 12345678901234567890


def server_message(kind, rid, method, psel, leaf):
    if kind == 0:
        return {"jsonrpc": "2.0", "id": rid, "result": shape(psel, leaf) or {}}
    if kind == 1:
        return {"jsonrpc": "2.0", "id": rid, "error": {"code": -32000, "message": "m", "data": shape(psel, leaf)}} if shape(psel, leaf) is not None else {"jsonrpc": "2.0", "id": rid, "error": {"code": -32000, "message": "m"}}
    if kind == 2:
        d = {"jsonrpc": "2.0", "method": method}
        p = shape(psel, leaf)
        if p is not None:
            d["params"] = p
        return d
    d = {"jsonrpc": "2.0", "id": rid, "method": method}
    p = shape(psel, leaf)
    if p is not None:
        d["params"] = p
    return d


class _UndrainedNotify:
    """the stdio client's side stream for notifications (`client.notifications`): users of stdio_client() never read
    it, so it fills up to its capacity and then refuses"""

    def __init__(self, cap):
        self.cap, self.items = cap, []

    def send_nowait(self, item):
        if len(self.items) >= self.cap:
            import anyio as _anyio

            raise _anyio.WouldBlock()
        self.items.append(item)

    async def send(self, item):
        self.send_nowait(item)

    async def aclose(self):
        pass


def _deliver_all(msgs, notify_cap=None):
    """the same decoded server messages through the four inbound paths; returns four lists of dumped objects"""
    import copy

    tok = _Tok()
    outs = []
    # 1 stdio
    c = make_client()
    if notify_cap is not None:
        c._notify_send = _UndrainedNotify(notify_cap)
    for d in msgs:
        drive(c._process_message_data(copy.deepcopy(d)))
    outs.append([dump(m) for m in c._incoming_send.items])
    # 2 Streamable HTTP, JSON body
    t = H11.make_transport()
    for d in msgs:
        drive(t._route_response(copy.deepcopy(d)))
    outs.append([dump(m) for m in t._incoming_send.items])
    # 3 Streamable HTTP, SSE body (text decoding stubbed)
    t2 = H11.make_transport()
    saved = HTTP.json
    HTTP.json = _JsonStub(tok, saved)
    try:
        text = "".join("event: message\ndata: " + tok.put(copy.deepcopy(d)) + "\n\n" for d in msgs)
        drive(t2._process_sse_text(text, "x"))
    finally:
        HTTP.json = saved
    outs.append([dump(m) for m in t2._incoming_send.items])
    # 4 legacy SSE event stream
    H12._reset([], "silent")
    t3 = H12._transport()
    t3._incoming_send = Rec()
    saved = SSE.json
    SSE.json = _JsonStub(tok, saved)
    try:
        for d in msgs:
            H12._drive_top(t3._handle_message_event(tok.put(copy.deepcopy(d))))
    finally:
        SSE.json = saved
    outs.append([dump(m) for m in t3._incoming_send.items])
    return outs


NAMES = ["stdio", "http-json", "http-sse", "legacy-sse"]


def inbound(kind, rid, method, psel, leaf):
    d = server_message(kind, rid, method, psel, leaf)
    outs = _deliver_all([d])
    for i in range(4):
        if len(outs[i]) != 1:
            return "not-delivered-once:" + NAMES[i]
        if not same_json(outs[i][0], d):
            return "message-altered-by-carrier:" + NAMES[i]
    return "ok"


def conversation(n_notes, rid, leaf, err):
    msgs = [server_message(2, None, "notifications/message", 2, leaf) for _ in range(n_notes)]
    for i in range(n_notes):
        msgs[i]["params"]["seq"] = i
    msgs.append(server_message(1 if err else 0, rid, None, 5, leaf))
    outs = _deliver_all(msgs)
    for i in range(4):
        if not same_json(outs[i], msgs):
            return "conversation-differs-on:" + NAMES[i]
    return "ok"


# ------------------------------------------------------------------ outbound: the value handed to each carrier's encoder
class _DumpRec:
    def __init__(self, real):
        self.real, self.seen = real, []
        self.JSONDecodeError = getattr(real, "JSONDecodeError", ValueError)

    def dumps(self, o, **kw):
        self.seen.append(o)
        return "{}"

    def loads(self, s):
        return self.real.loads(s)


def outbound(kind, rid, method, psel, leaf, typed):
    d = server_message(3 if kind == 0 else 2, rid, method, psel, leaf)  # request or notification
    import copy

    def mk():
        return JM.JSONRPCMessage(**copy.deepcopy(d)) if typed else copy.deepcopy(d)

    # stdio: what reaches the JSON encoder
    from harness.h_C06 import _Outgoing

    rec = _DumpRec(STDIO.json)
    saved_s, saved_b = STDIO.json, getattr(BASE, "json", None)
    STDIO.json = rec
    if saved_b is not None:
        BASE.json = rec
    try:
        c = make_client()
        c._outgoing_recv = _Outgoing([mk()])
        drive(c._stdin_writer())
    finally:
        STDIO.json = saved_s
        if saved_b is not None:
            BASE.json = saved_b
    if len(rec.seen) != 1:
        return "stdio-encoder-not-called-once"
    v_stdio = rec.seen[0]
    # Streamable HTTP
    H11.W.plan, H11.W.posts = [("resp", H11.FakeResponse(202, {}, b""))], []
    t = H11.make_transport()
    drive(t._send_message_internal(mk()))
    if len(H11.W.posts) != 1:
        return "http-not-posted-once"
    v_http = H11.W.posts[0]["json"]
    # legacy SSE
    H12._reset([], "silent")
    H12.W.plan = [{"status": 200, "body": b'{"jsonrpc":"2.0","id":"zz","result":{}}'}]
    t3 = H12._transport()
    t3._incoming_send = Rec()
    t3._message_url = "http://srv/messages/"
    t3._send_client = H12.FakeClient()
    H12._drive_top(t3._send_message_via_http(mk()))
    if len(H12.W.posts) != 1:
        return "sse-not-posted-once"
    v_sse = H12.W.posts[0]["json"]
    if not same_json(v_stdio, d):
        return "stdio-encodes-a-different-value"
    if not same_json(v_http, d):
        return "http-encodes-a-different-value"
    if not same_json(v_sse, d):
        return "sse-encodes-a-different-value"
    return "ok"


def inbound_i(kind, idsel, method, psel, leaf):
    return inbound(kind, pick_int_id(idsel), method, psel, leaf)


def conversation_i(n_notes, idsel, leaf, err):
    return conversation(n_notes, pick_int_id(idsel), leaf, err)


def outbound_i(kind, idsel, method, psel, leaf, typed):
    return outbound(kind, pick_int_id(idsel), method, psel, leaf, typed)


def pick_str_id(i):
    # the legacy SSE sender uses the (string) id as a dict KEY of its pending table: a symbolic key is realised (R1)
    if i == 0:
        return "r1"
    if i == 1:
        return "0"
    if i == 2:
        return "-5"
    return "caf\u00e9 \u2028"


def outbound_s(kind, idsel, method, psel, leaf, typed):
    return outbound(kind, pick_str_id(idsel), method, psel, leaf, typed)


# ------------------------------------------------------------------ round trips: two requests, each answered the carrier's own way
def pick_rt_id(i):
    if i == 0:
        return "r1"
    if i == 1:
        return 5
    if i == 2:
        return 0
    if i == 3:
        return "5"
    return -7


def roundtrip(idsel1, idsel2, n_notes, legacy_mode, typed, blob=None):
    """request 1 and request 2 are sent one after the other; the server answers each with n_notes notifications
    followed by the response.  stdio: lines; Streamable HTTP/JSON: the response as the POST body (this carrier cannot
    express the notifications: they are left out of its comparison); Streamable HTTP/SSE: an event-stream body;
    legacy SSE: 202 + events on the stream (mode 1), events racing the 202 (mode 2) or 200 + body with the
    notifications on the stream (mode 0).  The read stream must hold the same messages in the same order."""
    import copy
    import json as _json

    r1, r2 = pick_rt_id(idsel1), pick_rt_id(idsel2)
    if same_json(r1, r2):
        return "ok"
    turns = []
    seq = 0
    for rid in (r1, r2):
        notes = []
        for _ in range(n_notes):
            notes.append({"jsonrpc": "2.0", "method": "notifications/message", "params": ({"seq": seq} if blob is None else {"seq": seq, "blob": blob})})
            seq += 1
        turns.append((rid, notes, {"jsonrpc": "2.0", "id": rid, "result": ({"ok": seq} if blob is None else {"ok": seq, "blob": blob})}))
    expected = [m for (_r, ns, resp) in turns for m in ns + [resp]]
    expected_no_notes = [resp for (_r, _ns, resp) in turns]

    def mk(rid):
        d = {"jsonrpc": "2.0", "id": rid, "method": "tools/list"}
        return JM.JSONRPCMessage(**d) if typed else d

    # 1 stdio
    c = make_client()
    for d in expected:
        drive(c._process_message_data(copy.deepcopy(d)))
    got = [dump(m) for m in c._incoming_send.items]
    if not same_json(got, expected):
        return "roundtrip-differs-on:stdio"
    # 2 Streamable HTTP / JSON
    H11.W.plan, H11.W.posts = [], []
    t = H11.make_transport()
    for rid, _ns, resp in turns:
        H11.W.plan.append(("resp", H11.FakeResponse(200, {"Content-Type": "application/json"}, _json.dumps(resp, ensure_ascii=(blob is None)).encode())))
    for rid, _ns, _resp in turns:
        drive(t._send_message_internal(mk(rid)))
    got = [dump(m) for m in t._incoming_send.items]
    if not same_json(got, expected_no_notes):
        return "roundtrip-differs-on:http-json"
    # 3 Streamable HTTP / SSE body
    H11.W.plan, H11.W.posts = [], []
    t = H11.make_transport()
    for rid, ns, resp in turns:
        body = "".join("event: message\ndata: " + _json.dumps(m, ensure_ascii=(blob is None)) + "\n\n" for m in ns + [resp])
        H11.W.plan.append(("resp", H11.FakeResponse(200, {"Content-Type": "text/event-stream"}, body.encode())))
    for rid, _ns, _resp in turns:
        drive(t._send_message_internal(mk(rid)))
    got = [dump(m) for m in t._incoming_send.items]
    if not same_json(got, expected):
        return "roundtrip-differs-on:http-sse"
    # 4 legacy SSE
    chunks, plan = [], []
    for rid, ns, resp in turns:
        evs = ["event: message\ndata: " + _json.dumps(m, ensure_ascii=(blob is None)) + "\n\n" for m in ns]
        if legacy_mode == 0:
            chunks += evs
            plan.append({"status": 200, "body": _json.dumps(resp, ensure_ascii=(blob is None)).encode(), "deliver_during_post": len(evs)})
        else:
            evs.append("event: message\ndata: " + _json.dumps(resp, ensure_ascii=(blob is None)) + "\n\n")
            chunks += evs
            plan.append({"status": 202, "deliver_during_post": (len(evs) if legacy_mode == 2 else 0)})
    H12._reset(chunks, "silent")
    H12.W.plan = plan
    t3 = H12._transport()
    t3._incoming_send = Rec()
    t3._message_url = "http://srv/messages/?session_id=s"
    t3._send_client = H12.FakeClient()
    t3._sse_response = H12._SSEResponse(200)
    H12.W.sse_task = H12.STask(t3._process_sse_stream())
    for rid, _ns, _resp in turns:
        H12._drive_top(t3._send_message_via_http(mk(rid)))
    while H12.W.deliver_next():
        pass
    got = [dump(m) for m in t3._incoming_send.items]
    if not same_json(got, expected):
        return "roundtrip-differs-on:legacy-sse"
    return "ok"


from harness import sizes as _sizes  # noqa: E402

_sizes.size_cases(70000, extra=_sizes.ENV_SIZES)


def roundtrip_long(k, pat, legacy_mode, typed):
    """size dimension: results and notifications carry a string of c-1, c, c+1 characters (raw UTF-8 on the wire: the engine's own JSON encoder, which replaces the stdlib one inside a traced path, recurses per character when escaping)"""
    n = _sizes.pick(_sizes.size_cases(70000, extra=_sizes.ENV_SIZES), k)
    return roundtrip(1, 0, 1, legacy_mode, typed, blob=_sizes.long_text(n, pat))


def conversation_undrained(n_notes, cap, rid_sel, err):
    """n notifications then the response; nobody reads the stdio client's notification side stream, whose capacity
    is `cap` (symbolic): the read stream must be the same on all four carriers"""
    rid = pick_rt_id(rid_sel)
    msgs = [server_message(2, None, "notifications/message", 2, "x") for _ in range(n_notes)]
    for i in range(n_notes):
        msgs[i]["params"]["seq"] = i
    msgs.append(server_message(1 if err else 0, rid, None, 5, "x"))
    outs = _deliver_all(msgs, notify_cap=cap)
    for i in range(4):
        if not same_json(outs[i], msgs):
            return "conversation-differs-on:" + NAMES[i]
    return "ok"


def conversation_many(k, cap, lim=410):
    """count dimension: c-1, c, c+1 notifications before the response (c: integer constants of the source)"""
    n = _sizes.pick(_sizes.size_cases(lim), k)
    return conversation_undrained(n, cap, 1, False)
