"""C16 - stdio client shutdown control logic (bounded, signals the child as needed, never raises).
The OS-level half (process table, signals, file descriptors) is outside: see DESIGN.md."""
import asyncio
import importlib

import anyio

from symcheck.env import ENV, FakeScope, _Cancelled, drive, earliest_scope, install_clock, HarnessError, SUB, TICKS_PER_SEC
from harness.stdio_fake import make_client, STDIO, SPARAMS, Rec

install_clock()
anyio.get_cancelled_exc_class = lambda: asyncio.CancelledError


class _World:
    outer_cancelled = False
    shield_depth = 0
    unbounded_shields = 0


W = _World()


class FakeShield:
    """anyio.CancelScope(shield=True) stand-in: inside it the outer cancellation is not delivered"""

    def __init__(self, *a, shield=False, deadline=None, **k):
        self.shield = shield
        # a shield that carries a finite deadline delays a cancellation only for a bounded time
        self.unbounded = shield and (deadline is None or deadline == float("inf"))

    def __enter__(self):
        if self.shield:
            W.shield_depth += 1
        if self.unbounded:
            W.unbounded_shields += 1
        return self

    def __exit__(self, *a):
        if self.shield:
            W.shield_depth -= 1
        if self.unbounded:
            W.unbounded_shields -= 1
        return False

    def cancel(self):
        pass


anyio.CancelScope = FakeShield


def _checkpoint():
    if W.outer_cancelled and W.shield_depth == 0:
        raise asyncio.CancelledError("outer scope cancelled")


class Proc:
    def __init__(self, exited, exit_on_term, exit_on_kill, term_raises, kill_raises=False):
        self.returncode = 0 if exited else None
        self.exit_on_term, self.exit_on_kill, self.term_raises, self.kill_raises = exit_on_term, exit_on_kill, term_raises, kill_raises
        self.log = []
        self.pid = 1
        self.stdin = None
        self.stdout = None

    def terminate(self):
        self.log.append("terminate")
        if self.term_raises:
            raise ProcessLookupError()

    def kill(self):
        self.log.append("kill")
        if self.kill_raises:
            raise ProcessLookupError()  # the child died between the timed-out wait and the signal

    async def wait(self):
        _checkpoint()
        if self.returncode is not None:
            return self.returncode
        if ("kill" in self.log and self.exit_on_kill) or ("terminate" in self.log and self.exit_on_term and not self.term_raises):
            self.returncode = -9 if "kill" in self.log else -15
            return self.returncode
        best = earliest_scope()
        if best is None:
            raise HarnessError("wait() without deadline would block forever")
        ENV.advance(best.deadline)
        raise _Cancelled(best)


class TG:
    def __init__(self, mode):
        self.mode = mode
        self.cancelled = 0
        tg = self

        class CS:
            def cancel(self_inner):
                tg.cancelled += 1

        self.cancel_scope = CS()
        self.exited = 0

    async def __aexit__(self, *a):
        self.exited += 1
        _checkpoint()
        if self.mode == 1:
            raise BaseExceptionGroup("tg", [asyncio.CancelledError()])
        if self.mode == 2:
            raise BaseExceptionGroup("tg", [RuntimeError("reader crashed")])
        if self.mode == 3:
            raise RuntimeError("Attempted to exit cancel scope in a different task than it was entered in")
        if self.mode == 4:
            raise ValueError("the JSON object must be str, bytes or bytearray, not dict")
        return None


def shutdown(exited, exit_on_term, exit_on_kill, term_raises, tg_mode, outer_cancel, has_tg, kill_raises=False, reader_eof=False):
    ENV.reset([])
    W.outer_cancelled, W.shield_depth = False, 0
    c = make_client()
    p = Proc(exited, exit_on_term, exit_on_kill, term_raises, kill_raises)
    c.process = p  # (make_client checked that the members the harness sets exist)
    if reader_eof:
        # the child closed its stdout (or wrote its last line) before the context is left: the reader task has seen
        # end-of-stream while the process may well be alive
        from harness.stdio_fake import FakeStdout

        p.stdout = FakeStdout([b'{"jsonrpc":"2.0","method":"notifications/message"}\n'])
        drive(c._stdout_reader())
    W.outer_cancelled = bool(outer_cancel)
    tg = TG(tg_mode) if has_tg else None
    c.tg = tg
    raised = None
    try:
        r = drive(c.__aexit__(None, None, None))
    except HarnessError:
        raise
    except asyncio.CancelledError as e:
        raised = e
        r = None
    except BaseException as e:  # noqa
        return "aexit-raised:" + type(e).__name__
    if raised is not None and not outer_cancel:
        return "aexit-raised-cancelled-without-cancellation"
    if raised is None and r is not False:
        return "aexit-suppresses-or-returns-non-false"
    if ENV.tick > 2 * TICKS_PER_SEC:
        return "shutdown-took-longer-than-two-grace-periods"
    # (HOW the reader/writer tasks are made to end - cancelling them, or letting them see end-of-stream after the
    #  child was terminated - is an implementation choice; only the task group having been exited is required)
    if has_tg and tg.exited < 1:
        return "task-group-never-exited"
    if exited:
        if p.log:
            return "exited-process-was-signalled"
        return "ok"
    if "terminate" not in p.log:
        return "live-child-was-never-terminated"
    # (a repeated SIGTERM - e.g. once before an interrupted wait and once in the shielded retry - is harmless and
    # not excluded by the property; an earlier version of this oracle demanded exactly one and raised a false alarm)
    survives_term = term_raises or not exit_on_term
    if term_raises:
        # the process vanished between the check and the signal: nothing more to do, or a kill attempt - both fine
        return "ok"
    if survives_term and "kill" not in p.log:
        return "child-that-ignored-terminate-was-not-killed"
    if not survives_term and "kill" in p.log:
        return "cooperative-child-was-killed"
    if len(p.log) >= 2 and p.log[0] != "terminate":
        return "kill-before-terminate"
    return "ok"


def cannot_start(which):
    """a command that cannot be started makes entering the context raise"""
    exc = FileNotFoundError("no such file") if which == 0 else (PermissionError("denied") if which == 1 else OSError("exec format error"))

    async def failing(*a, **k):
        raise exc

    saved = STDIO.anyio.open_process
    STDIO.anyio.open_process = failing
    try:
        c = STDIO.StdioClient(SPARAMS.StdioParameters(command="nope", args=[]))
        try:
            drive(c.__aenter__())
        except HarnessError:
            raise
        except OSError:
            return "ok"
        except Exception as e:
            return "entering-raised-other:" + type(e).__name__
        return "entering-did-not-raise"
    finally:
        STDIO.anyio.open_process = saved


def empty_command():
    try:
        STDIO.StdioClient(SPARAMS.StdioParameters(command="", args=[]))
    except ValueError:
        return "ok"
    except Exception as e:
        return "other:" + type(e).__name__
    return "empty-command-accepted"


# ------------------------------------------------------------------ the context-manager wrappers around the client
class _TG2(TG):
    async def __aenter__(self):
        return self

    def start_soon(self, fn, *a):
        pass


def wrapper(which, body, exit_on_term, exit_on_kill, tg_mode, outer_cancel):
    """stdio_client(...) / stdio_client_with_initialize(...) as `async with`: body leaves normally (0), raises KeyError (1),
    raises an error whose text mentions 'cancel scope' (2), or is cancelled (3); the child is alive at exit"""
    ENV.reset([])
    W.outer_cancelled, W.shield_depth = False, 0
    procs = []

    async def open_process(argv, **kw):
        p = Proc(False, exit_on_term, exit_on_kill, False)
        procs.append(p)
        return p

    saved = (STDIO.anyio.open_process, STDIO.anyio.create_task_group)
    STDIO.anyio.open_process = open_process
    STDIO.anyio.create_task_group = lambda: _TG2(tg_mode)
    try:
        params = SPARAMS.StdioParameters(command="srv", args=[])
        cm = STDIO.stdio_client(params)
        drive(cm.__aenter__())
        exc = None
        if body == 1:
            exc = KeyError("body failed")
        elif body == 2:
            exc = RuntimeError("Attempted to exit cancel scope in a different task")
        elif body == 3:
            exc = asyncio.CancelledError()
        W.outer_cancelled = bool(outer_cancel) or body == 3
        raised, suppressed = None, None
        try:
            if exc is None:
                drive(cm.__aexit__(None, None, None))
            else:
                # a falsy return value means "not suppressed": the `async with` statement re-raises the body's exception
                suppressed = bool(drive(cm.__aexit__(type(exc), exc, None)))
        except HarnessError:
            raise
        except BaseException as e:  # noqa
            raised = e
    finally:
        STDIO.anyio.open_process, STDIO.anyio.create_task_group = saved
    if len(procs) != 1:
        return "not-exactly-one-process"
    p = procs[0]
    if ENV.tick > 2 * TICKS_PER_SEC:
        return "shutdown-took-longer-than-two-grace-periods"
    if "terminate" not in p.log:
        return "live-child-was-never-terminated"
    if not exit_on_term and "kill" not in p.log:
        return "child-that-ignored-terminate-was-not-killed"
    if exit_on_term and "kill" in p.log:
        return "cooperative-child-was-killed"
    # (whether the body's own exception or a cancellation surfaces is not part of the property: not judged)
    if body == 0 and not W.outer_cancelled and raised is not None and not (tg_mode in (2, 4) and isinstance(raised, BaseException)):
        return "normal-exit-raised:" + type(raised).__name__
    return "ok"


# ------------------------------------------------------------------ a task blocked on a pipe must stay cancellable
from harness import sizes as _sizes  # noqa: E402

_sizes.size_cases(70000, extra=_sizes.ENV_SIZES)
_sizes.size_cases(140000, extra=_sizes.ENV_SIZES)


class _Block:
    """an await that never completes by itself (a full pipe / a silent child)"""

    def __await__(self):
        yield self


class _BlockingStdin:
    def __init__(self):
        self.chunks, self.closed = [], 0

    async def send(self, data):
        await _Block()
        self.chunks.append(data)

    async def aclose(self):
        self.closed += 1


class _BlockingStdout:
    def __aiter__(self):
        return self

    async def __anext__(self):
        await _Block()
        raise StopAsyncIteration

    async def receive(self, n=65536):
        await _Block()
        return b""


def _cancel_while_blocked(coro, who):
    """the task group is cancelled while the task waits for the pipe: the cancellation must reach it (it is not
    inside a shielded scope) and it must end"""
    W.outer_cancelled, W.shield_depth, W.unbounded_shields = False, 0, 0
    try:
        p = coro.send(None)
    except StopIteration:
        return who + "-ended-without-touching-the-pipe"
    if not isinstance(p, _Block):
        coro.close()
        raise HarnessError("task parked on something else than the pipe")
    if W.unbounded_shields > 0:
        coro.close()
        return who + "-blocked-on-the-pipe-inside-a-shielded-scope"
    try:
        coro.throw(asyncio.CancelledError())
    except (asyncio.CancelledError, StopIteration):
        return "ok"
    except HarnessError:
        raise
    except BaseException as e:  # noqa
        return who + "-raised-on-cancellation:" + type(e).__name__
    coro.close()
    return who + "-keeps-waiting-after-cancellation"


def blocked_writer(kind, k, pat, lim=70000):
    """the child does not read and the pipe is full: the writer waits in stdin.send() with a message of c-1, c, c+1
    characters (c: integer constants of the source and environment sizes such as PIPE_BUF)"""
    from harness.h_C06 import item, _Outgoing

    n = _sizes.pick(_sizes.size_cases(lim, extra=_sizes.ENV_SIZES), k)
    obj, exp = item(kind, 0, _sizes.long_text(n, pat))
    if exp is None:
        raise HarnessError("kind must be serialisable")
    ENV.reset([])
    c = make_client()
    c.process.stdin = _BlockingStdin()
    c._outgoing_recv = _Outgoing([obj])
    return _cancel_while_blocked(c._stdin_writer(), "writer")


def blocked_reader(x):
    ENV.reset([])
    c = make_client()
    c.process.stdout = _BlockingStdout()
    return _cancel_while_blocked(c._stdout_reader(), "reader")
