"""Real-environment replay: the real anyio (asyncio backend), real memory object
streams and the real library coroutines, run on an event loop whose clock is
virtual.  A 30 s timeout runs in milliseconds; timer order is exactly the real
loop's.  Used to validate the stub world of env.py and to replay
counterexamples before they are reported (DESIGN.md section 0.5)."""
from __future__ import annotations

import asyncio
import heapq

import anyio

from .env import TICKS_PER_SEC


class VLoop(asyncio.SelectorEventLoop):
    def __init__(self):
        super().__init__()
        self._vt = 0.0

    def time(self):
        return self._vt

    def _run_once(self):
        if not self._ready and self._scheduled:
            while self._scheduled and self._scheduled[0]._cancelled:
                h = heapq.heappop(self._scheduled)
                h._scheduled = False
            if self._scheduled and self._scheduled[0]._when > self._vt:
                self._vt = self._scheduled[0]._when
        super()._run_once()


def run_virtual(main_coro_fn, *args):
    """anyio.run(main) on the virtual-time loop."""
    import anyio as _anyio
    import importlib

    # the stub world may have replaced anyio.fail_after in this process
    real_fail_after = importlib.import_module("anyio._core._tasks").fail_after
    from . import env as _env

    saved = _anyio.fail_after
    _anyio.fail_after = real_fail_after
    _env.real_checkpoints()
    try:
        return _anyio.run(main_coro_fn, *args, backend="asyncio", backend_options={"loop_factory": VLoop})
    finally:
        _anyio.fail_after = saved
        _env.stub_checkpoints()


def now_ticks():
    return asyncio.get_running_loop().time() * TICKS_PER_SEC


async def sleep_until(ticks_float):
    loop = asyncio.get_running_loop()
    d = ticks_float / TICKS_PER_SEC - loop.time()
    if d > 0:
        await anyio.sleep(d)


async def sleep_until_arrival(tick, pos):
    """the i-th scripted message arrives (i+1)/8 tick after its nominal tick (env.fine_arrival)"""
    await sleep_until(tick + (pos + 1) / 8)


async def sleep_until_cancel(tick):
    await sleep_until(tick + 1 / 16)


class RealWire:
    """Recording send stream with the MemoryObjectSendStream interface used by the library."""

    def __init__(self):
        self.items = []

    async def send(self, item):
        self.items.append((now_ticks(), item))

    async def aclose(self):
        pass
