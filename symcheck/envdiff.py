"""Differential validation of the stub world against the real component.
python -m symcheck.envdiff <harness module> <n> <seed>  -> prints ENVDIFF {json}"""
import importlib
import json
import random
import sys


def main():
    mod, n, seed = sys.argv[1], int(sys.argv[2]), int(sys.argv[3])
    H = importlib.import_module(mod)
    rng = random.Random(seed)
    bad, done = [], 0
    for case in H.diff_cases(rng, n):
        try:
            r = H.diff_one(*case)
        except Exception as e:  # noqa
            r = f"raised:{type(e).__name__}:{e}"
        done += 1
        if r != "ok":
            bad.append({"case": repr(case), "reason": r[:600]})
    print("ENVDIFF " + json.dumps({"validated": done, "disagreements": bad[:10], "n_disagreements": len(bad)}))


if __name__ == "__main__":
    main()
