# exec'd by `crosshair --extra_plugin` inside crosshair's own namespace: only import a real module
import os as _os, sys as _sys
_sys.path.insert(0, _os.path.join(_os.environ.get("VERIF_ROOT", "/verif"), "symcheck"))
import fmtstub  # noqa
