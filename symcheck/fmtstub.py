"""CrossHair plugin body (rule R3 of DESIGN.md): formatting a symbolic non-str
value yields a placeholder instead of realising it.  Imported by plugin.py."""
from crosshair import register_patch, NoTracing
from crosshair.core import _PATCH_REGISTRATIONS, CrossHairValue
from crosshair.libimpl import builtinslib as bl

_orig = bl._format
PLACEHOLDER = "‹sym›"


def _has_symbolic(o, d=0):
    if isinstance(o, CrossHairValue):
        return True
    if d > 3:
        return False
    if type(o) in (list, tuple, set):
        return any(_has_symbolic(x, d + 1) for x in o)
    if type(o) is dict:
        return any(
            _has_symbolic(k, d + 1) or _has_symbolic(v, d + 1) for k, v in o.items()
        )
    return False


def _format(obj, spec=""):
    with NoTracing():
        if not isinstance(obj, bl.AnySymbolicStr) and _has_symbolic(obj):
            return PLACEHOLDER
    return _orig(obj, spec)


_PATCH_REGISTRATIONS.pop(format, None)
register_patch(format, _format)
