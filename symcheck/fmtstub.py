"""CrossHair plugin body (rule R3 of DESIGN.md): formatting a symbolic non-str
value yields a placeholder instead of realising it.  Imported by plugin.py."""
from crosshair import register_patch, NoTracing
from crosshair.core import _PATCH_REGISTRATIONS, CrossHairValue
from crosshair.libimpl import builtinslib as bl

_orig = bl._format
PLACEHOLDER = "‹sym›"


def _has_symbolic(o, d=0):
    if isinstance(o, CrossHairValue):
        return True
    if d > 3:
        return False
    if type(o) in (list, tuple, set):
        return any(_has_symbolic(x, d + 1) for x in o)
    if type(o) is dict:
        return any(
            _has_symbolic(k, d + 1) or _has_symbolic(v, d + 1) for k, v in o.items()
        )
    return False


def _format(obj, spec=""):
    with NoTracing():
        if not isinstance(obj, bl.AnySymbolicStr) and _has_symbolic(obj):
            return PLACEHOLDER
    return _orig(obj, spec)


_PATCH_REGISTRATIONS.pop(format, None)
register_patch(format, _format)


# ---------------------------------------------------------------------------
# Regex model repair.  CrossHair 0.0.110 treats `$` (non-MULTILINE) as "end of string" only; in
# CPython it also matches just before a trailing "\n".  The pattern is rewritten, before CrossHair
# compiles it, into the exactly equivalent zero-width `(?=\n?\Z)`, which the engine models correctly.
# Found when a seeded change ("2025-06-18\n" accepted as a supported version) was reported as
# `Confirmed` by the unpatched model.
import re as _re

from crosshair.libimpl import relib as _relib

_orig_compile = _relib._compile


def _rewrite_dollar(p):
    out, i, n, in_class = [], 0, len(p), False
    while i < n:
        c = p[i]
        if c == "\\" and i + 1 < n:
            out.append(p[i:i + 2])
            i += 2
            continue
        if in_class:
            if c == "]":
                in_class = False
            out.append(c)
        elif c == "[":
            in_class = True
            out.append(c)
            if i + 1 < n and p[i + 1] == "^":
                out.append("^")
                i += 1
            if i + 1 < n and p[i + 1] == "]":
                out.append("]")
                i += 1
        elif c == "$":
            out.append("(?=\\n?\\Z)")
        else:
            out.append(c)
        i += 1
    return "".join(out)


def _compile_fixed(*a):
    with NoTracing():
        try:
            pattern = a[0]
            flags = a[1] if len(a) > 1 else 0
            if type(pattern) is str and "$" in pattern and not (int(flags) & _re.MULTILINE) and "(?m" not in pattern and "(?x" not in pattern and not (int(flags) & _re.VERBOSE):
                a = (_rewrite_dollar(pattern),) + tuple(a[1:])
        except Exception:
            pass
    return _orig_compile(*a)


_PATCH_REGISTRATIONS.pop(_re._compile, None)
register_patch(_re._compile, _compile_fixed)
