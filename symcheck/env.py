"""Environment stubs shared by the harnesses (DESIGN.md section 0.3).

Virtual time is an integer number of ticks, 1 tick = 1/128 s (7.8125 ms).  The
unit is a binary fraction so that every instant of a schedule is exactly
representable as a float and the replay on the real anyio event loop (vloop.py)
has no rounding: the library's hard-wired 0.5 s poll is exactly 64 ticks.
"""
from __future__ import annotations

import logging
import os

TICKS_PER_SEC = 128
POLL = 64  # the 0.5 s sub-timeout of _await_response, in ticks
# Instants inside one tick are totally ordered so that no two events of a schedule ever
# coincide (a tie would be a race on the real event loop): the clock runs in 1/64 tick;
# deadlines measured from the start of caller j sit j/64 after the tick (j = 0 for a single
# caller), the external cancel trigger 4/64 later, the arrival of the i-th scripted message
# (i+1)/8 later.  Deadlines derived from an arrival inherit that arrival's offset, and an
# arrival is consumed by exactly one task, so no two events of a schedule share an instant.
SUB = 64
MAX_SCRIPT = 7


def fine_arrival(tick, pos):
    return tick * SUB + 8 * (pos + 1)


def fine_cancel(tick):
    return tick * SUB + 4


def fine_start(j):
    return j

logging.disable(logging.CRITICAL)  # rule R8


_PATHFD = None
if os.environ.get("VERIF_PATHLOG"):
    try:
        _PATHFD = os.open(os.environ["VERIF_PATHLOG"], os.O_WRONLY | os.O_APPEND | os.O_CREAT, 0o644)
    except OSError:
        _PATHFD = None


def mark():
    """One byte per harness invocation = explored paths (evidence only)."""
    if _PATHFD is not None:
        try:
            os.write(_PATHFD, b".")
        except Exception:
            pass


class HarnessError(Exception):
    """The harness (not the code under test) is wrong, e.g. an unplanned suspend."""


def seam_check(e):
    """AttributeError for a private name of the library = the harness reaches for a helper that a refactoring removed"""
    if isinstance(e, AttributeError):
        m = str(e)
        if "has no attribute '_" in m and ("module" in m or "object has no attribute" in m or "type object" in m):
            raise HarnessError("seam missing: " + m)


def need(obj, *names):
    """the harness is about to replace or drive these private members: they must exist in the tree under test"""
    for n in names:
        if not hasattr(obj, n):
            raise HarnessError("seam missing: %s has no attribute '%s'" % (getattr(obj, "__name__", type(obj).__name__), n))


def drive(coro):
    """Run a coroutine whose awaits never suspend (rule R5)."""
    try:
        coro.send(None)
    except StopIteration as e:
        return e.value
    coro.close()
    raise HarnessError("coroutine suspended where the harness did not plan it")


# --------------------------------------------------------------------------
# Virtual clock + anyio.fail_after stub
# --------------------------------------------------------------------------
class _Cancelled(BaseException):
    """Stands for anyio's cancellation exception delivered to a waiting task."""

    def __init__(self, scope):
        self.scope = scope


class Env:
    def __init__(self):
        self.reset([])

    def reset(self, script, cancel_at=None, token=None):
        self.now = 0
        self.scopes = []
        self.script = script  # list of (absolute tick, item)
        self.pos = 0
        self.cancel_at = cancel_at
        self.token = token
        self.wire = []
        self.receives = 0  # number of receive() calls started
        self.first_receive_wire_len = None

    def advance(self, fine):
        if fine > self.now:
            self.now = fine
        if (
            self.cancel_at is not None
            and self.token is not None
            and fine_cancel(self.cancel_at) <= fine
            and not self.token.is_cancelled
        ):
            self.token.cancel()

    @property
    def tick(self):
        return self.now // SUB


ENV = Env()


class FakeScope:
    def __init__(self, ticks):
        self.deadline = ENV.now + ticks * SUB
        self.cancel_called = False

    def __enter__(self):
        ENV.scopes.append(self)
        return self

    def __exit__(self, et, ev, tb):
        ENV.scopes.pop()
        if isinstance(ev, _Cancelled) and ev.scope is self:
            raise TimeoutError()
        return False  # a foreign deadline passes through


def to_ticks(d):
    if type(d) is float:
        return int(round(d * TICKS_PER_SEC))
    if type(d).__name__ == "Ticks":
        return d.n
    return d  # ints (also symbolic ints) are ticks already: rule R2


def fake_fail_after(d, shield=False):
    return FakeScope(to_ticks(d))


def earliest_scope():
    best = None
    for s in ENV.scopes:  # outermost first: it wins a tie
        if best is None or s.deadline < best.deadline:
            best = s
    return best


class ScriptedReadStream:
    """anyio receive stream stub: items arrive at scripted absolute ticks."""

    async def receive(self):
        ENV.receives += 1
        if ENV.first_receive_wire_len is None:
            ENV.first_receive_wire_len = len(ENV.wire)
        best = earliest_scope()
        if best is not None and ENV.now >= best.deadline:
            raise _Cancelled(best)
        if ENV.pos < len(ENV.script):
            t, item = ENV.script[ENV.pos]
            ft = fine_arrival(t, ENV.pos)
            if best is None or ft < best.deadline:
                ENV.pos += 1
                ENV.advance(ft)
                return item
        if best is None:
            raise HarnessError("receive() would block forever: no deadline scope active")
        ENV.advance(best.deadline)
        raise _Cancelled(best)

    async def aclose(self):
        pass


class RecordingWriteStream:
    async def send(self, item):
        ENV.wire.append((ENV.tick, item))

    async def aclose(self):
        pass


def install_clock():
    import anyio

    anyio.fail_after = fake_fail_after


# --------------------------------------------------------------------------
# checkpoints: a library coroutine may yield to the scheduler at any point without changing what it computes.
# In the stub world nothing else is runnable at such a point, so a checkpoint returns at once (one legitimate
# schedule); without this a harmless `await anyio.lowlevel.checkpoint()` added to the library would end a path
# with NoEventLoopError.  The real-environment twins (vloop, native scenarios) put the real functions back.
# --------------------------------------------------------------------------
_REAL_CP = {}


async def _noop_checkpoint():
    return None


async def _stub_sleep(delay):
    if delay and delay > 0:
        ENV.advance(ENV.now + int(to_ticks(delay)) * SUB)
    return None


def stub_checkpoints():
    import anyio
    import anyio.lowlevel as ll

    if not _REAL_CP:
        for n in ("checkpoint", "checkpoint_if_cancelled", "cancel_shielded_checkpoint"):
            _REAL_CP[n] = getattr(ll, n)
        _REAL_CP["sleep"] = anyio.sleep
    for n in ("checkpoint", "checkpoint_if_cancelled", "cancel_shielded_checkpoint"):
        setattr(ll, n, _noop_checkpoint)
    anyio.sleep = _stub_sleep


def real_checkpoints():
    import anyio
    import anyio.lowlevel as ll

    for n, f in _REAL_CP.items():
        if n == "sleep":
            anyio.sleep = f
        else:
            setattr(ll, n, f)


# --------------------------------------------------------------------------
# helpers for oracles
# --------------------------------------------------------------------------
def dump(msg):
    """Plain-dict view of a message object (backend independent)."""
    if isinstance(msg, dict):
        return msg
    if isinstance(msg, list):
        return [dump(m) for m in msg]
    return msg.model_dump(exclude_none=True)


def same_json(a, b):
    """Equality of JSON values that also distinguishes int/str/bool (1 != True, '1' != 1)."""
    if type(a) is not type(b):
        # bool vs int and str vs int must differ; int vs float are both numbers
        if isinstance(a, bool) or isinstance(b, bool):
            return False
        if isinstance(a, (int, float)) and isinstance(b, (int, float)):
            return a == b
        if isinstance(a, str) and isinstance(b, str):
            return a == b
        if isinstance(a, dict) and isinstance(b, dict):
            pass
        elif isinstance(a, (list, tuple)) and isinstance(b, (list, tuple)):
            pass
        else:
            return False
    if isinstance(a, dict):
        if len(a) != len(b):
            return False
        for k in a:
            if k not in b or not same_json(a[k], b[k]):
                return False
        return True
    if isinstance(a, (list, tuple)):
        if len(a) != len(b):
            return False
        for x, y in zip(a, b):
            if not same_json(x, y):
                return False
        return True
    return a == b


# --------------------------------------------------------------------------
# MiniSched: >= 2 concurrent callers on one shared receive stream
# --------------------------------------------------------------------------
class _Park:
    """Awaitable that parks the current task until the scheduler resumes it."""

    def __await__(self):
        item = yield self
        return item


class _Task:
    def __init__(self, idx, coro):
        self.idx, self.coro = idx, coro
        self.scopes = []
        self.waiting = False
        self.finished = False
        self.result = None
        self.exc = None
        self.done = None


class MiniSched:
    """Deterministic scheduler with anyio's memory-stream hand-over rule: an item goes to the
    longest-waiting receiver, else into the buffer; a receiver takes a buffered item at once."""

    def __init__(self, script):
        self.script = script  # [(tick, item)]
        self.pos = 0
        self.buffer = []
        self.waiters = []
        self.tasks = []
        self.current = None
        self.handovers = []  # (task idx, item)

    # -- stream interface used by the code under test
    def stream(self):
        sched = self

        class Shared:
            async def receive(self_inner):
                t = sched.current
                best = _earliest(t.scopes)
                if best is not None and ENV.now >= best.deadline:
                    raise _Cancelled(best)
                if sched.buffer:
                    item = sched.buffer.pop(0)
                else:
                    sched.waiters.append(t)
                    t.waiting = True
                    item = await _Park()
                sched.handovers.append((t.idx, item))
                return item

            async def aclose(self_inner):
                pass

        return Shared()

    def _step(self, t, value=None, exc=None):
        self.current = t
        saved = ENV.scopes
        ENV.scopes = t.scopes
        try:
            if exc is not None:
                t.coro.throw(exc)
            else:
                t.coro.send(value)
        except StopIteration as e:
            t.finished, t.result, t.done = True, e.value, ENV.tick
        except _Cancelled:
            raise HarnessError("cancellation escaped every scope")
        except Exception as e:  # the task ended with an exception (TimeoutError, classified errors ...)
            t.finished, t.exc, t.done = True, e, ENV.tick
        finally:
            ENV.scopes = saved
            self.current = None

    def run(self, coros):
        ENV.now = 0
        for j, c in enumerate(coros):
            t = _Task(j, c)
            self.tasks.append(t)
        for t in self.tasks:
            ENV.advance(fine_start(t.idx))
            self._step(t)
        guard = 0
        while True:
            guard += 1
            if guard > 400:
                raise HarnessError("scheduler runaway")
            live = [t for t in self.tasks if not t.finished]
            if not live:
                break
            # next arrival
            arr = None
            if self.pos < len(self.script):
                arr = fine_arrival(self.script[self.pos][0], self.pos)
            # earliest deadline among waiting tasks
            dl, dl_task, dl_scope = None, None, None
            for t in live:
                if not t.waiting:
                    raise HarnessError("live task neither waiting nor finished")
                b = _earliest(t.scopes)
                if b is not None and (dl is None or b.deadline < dl):
                    dl, dl_task, dl_scope = b.deadline, t, b
            if arr is not None and (dl is None or arr < dl):
                item = self.script[self.pos][1]
                self.pos += 1
                ENV.advance(arr)
                if self.waiters:
                    t = self.waiters.pop(0)
                    t.waiting = False
                    self._step(t, value=item)
                else:
                    self.buffer.append(item)
                continue
            if dl is None:
                raise HarnessError("deadlock: tasks wait forever")
            ENV.advance(dl)
            self.waiters.remove(dl_task)
            dl_task.waiting = False
            self._step(dl_task, exc=_Cancelled(dl_scope))
        return self.tasks


def _earliest(scopes):
    best = None
    for s in scopes:
        if best is None or s.deadline < best.deadline:
            best = s
    return best


# --------------------------------------------------------------------------
# Ticks: a duration in ticks that mixes correctly with the library's float seconds
# --------------------------------------------------------------------------
class Ticks:
    """The stub world passes `timeout` as a number of ticks (rule R2: no symbolic floats).  Code that only hands
    the timeout to fail_after never notices; code that does arithmetic with it against float seconds (e.g.
    min(0.5, timeout), remaining -= poll) would mix units.  Ticks converts every float operand (seconds, always a
    multiple of 1/128 s here) to ticks, so such code keeps its meaning."""

    __slots__ = ("n",)

    def __init__(self, n):
        self.n = n

    @staticmethod
    def _t(o):
        if isinstance(o, Ticks):
            return o.n
        if type(o) is float:
            return int(round(o * TICKS_PER_SEC))
        if o == 0:
            return 0
        if isinstance(o, int):
            return o * TICKS_PER_SEC  # a bare integer number of seconds
        raise TypeError("cannot combine Ticks with %r" % (type(o),))

    def __lt__(self, o):
        return self.n < Ticks._t(o)

    def __le__(self, o):
        return self.n <= Ticks._t(o)

    def __gt__(self, o):
        return self.n > Ticks._t(o)

    def __ge__(self, o):
        return self.n >= Ticks._t(o)

    def __eq__(self, o):
        try:
            return self.n == Ticks._t(o)
        except TypeError:
            return False

    def __ne__(self, o):
        return not self.__eq__(o)

    __hash__ = None

    def __bool__(self):
        return self.n != 0

    def __add__(self, o):
        return Ticks(self.n + Ticks._t(o))

    __radd__ = __add__

    def __sub__(self, o):
        return Ticks(self.n - Ticks._t(o))

    def __rsub__(self, o):
        return Ticks(Ticks._t(o) - self.n)

    def __neg__(self):
        return Ticks(-self.n)

    def __mul__(self, k):
        if type(k) is float:
            raise TypeError("Ticks * float is not modelled")
        return Ticks(self.n * k)

    __rmul__ = __mul__

    def __repr__(self):
        return "Ticks(%r)" % (self.n,)

    def __format__(self, spec):
        return "<ticks>"

    def __float__(self):
        return self.n / TICKS_PER_SEC


try:
    stub_checkpoints()
except ImportError:  # the runner process itself may import this module without anyio
    pass
