"""Environment stubs shared by the harnesses (DESIGN.md section 0.3).

Virtual time is an integer number of ticks, 1 tick = 1/128 s (7.8125 ms).  The
unit is a binary fraction so that every instant of a schedule is exactly
representable as a float and the replay on the real anyio event loop (vloop.py)
has no rounding: the library's hard-wired 0.5 s poll is exactly 64 ticks.
"""
from __future__ import annotations

import logging
import os

TICKS_PER_SEC = 128
POLL = 64  # the 0.5 s sub-timeout of _await_response, in ticks

logging.disable(logging.CRITICAL)  # rule R8


_PATHFD = None
if os.environ.get("VERIF_PATHLOG"):
    try:
        _PATHFD = os.open(os.environ["VERIF_PATHLOG"], os.O_WRONLY | os.O_APPEND | os.O_CREAT, 0o644)
    except OSError:
        _PATHFD = None


def mark():
    """One byte per harness invocation = explored paths (evidence only)."""
    if _PATHFD is not None:
        try:
            os.write(_PATHFD, b".")
        except Exception:
            pass


class HarnessError(Exception):
    """The harness (not the code under test) is wrong, e.g. an unplanned suspend."""


def drive(coro):
    """Run a coroutine whose awaits never suspend (rule R5)."""
    try:
        coro.send(None)
    except StopIteration as e:
        return e.value
    coro.close()
    raise HarnessError("coroutine suspended where the harness did not plan it")


# --------------------------------------------------------------------------
# Virtual clock + anyio.fail_after stub
# --------------------------------------------------------------------------
class _Cancelled(BaseException):
    """Stands for anyio's cancellation exception delivered to a waiting task."""

    def __init__(self, scope):
        self.scope = scope


class Env:
    def __init__(self):
        self.reset([])

    def reset(self, script, cancel_at=None, token=None):
        self.now = 0
        self.scopes = []
        self.script = script  # list of (absolute tick, item)
        self.pos = 0
        self.cancel_at = cancel_at
        self.token = token
        self.wire = []
        self.receives = 0  # number of receive() calls started
        self.first_receive_wire_len = None

    def advance(self, t):
        if t > self.now:
            self.now = t
        if (
            self.cancel_at is not None
            and self.token is not None
            and self.cancel_at <= self.now
            and not self.token.is_cancelled
        ):
            self.token.cancel()


ENV = Env()


class FakeScope:
    def __init__(self, ticks):
        self.deadline = ENV.now + ticks
        self.cancel_called = False

    def __enter__(self):
        ENV.scopes.append(self)
        return self

    def __exit__(self, et, ev, tb):
        ENV.scopes.pop()
        if isinstance(ev, _Cancelled) and ev.scope is self:
            raise TimeoutError()
        return False  # a foreign deadline passes through


def to_ticks(d):
    if type(d) is float:
        return int(round(d * TICKS_PER_SEC))
    return d  # ints (also symbolic ints) are ticks already: rule R2


def fake_fail_after(d, shield=False):
    return FakeScope(to_ticks(d))


def earliest_scope():
    best = None
    for s in ENV.scopes:  # outermost first: it wins a tie
        if best is None or s.deadline < best.deadline:
            best = s
    return best


class ScriptedReadStream:
    """anyio receive stream stub: items arrive at scripted absolute ticks."""

    async def receive(self):
        ENV.receives += 1
        if ENV.first_receive_wire_len is None:
            ENV.first_receive_wire_len = len(ENV.wire)
        # an external cancel scheduled for "now" fires before anything else is observed
        ENV.advance(ENV.now)
        best = earliest_scope()
        if best is not None and ENV.now >= best.deadline:
            raise _Cancelled(best)
        if ENV.pos < len(ENV.script):
            t, item = ENV.script[ENV.pos]
            if best is None or t < best.deadline:
                ENV.pos += 1
                ENV.advance(t)
                return item
        if best is None:
            raise HarnessError("receive() would block forever: no deadline scope active")
        ENV.advance(best.deadline)
        raise _Cancelled(best)

    async def aclose(self):
        pass


class RecordingWriteStream:
    async def send(self, item):
        ENV.wire.append((ENV.now, item))

    async def aclose(self):
        pass


def install_clock():
    import anyio

    anyio.fail_after = fake_fail_after


# --------------------------------------------------------------------------
# helpers for oracles
# --------------------------------------------------------------------------
def dump(msg):
    """Plain-dict view of a message object (backend independent)."""
    if isinstance(msg, dict):
        return msg
    if isinstance(msg, list):
        return [dump(m) for m in msg]
    return msg.model_dump(exclude_none=True)


def same_json(a, b):
    """Equality of JSON values that also distinguishes int/str/bool (1 != True, '1' != 1)."""
    if type(a) is not type(b):
        # bool vs int and str vs int must differ; int vs float are both numbers
        if isinstance(a, bool) or isinstance(b, bool):
            return False
        if isinstance(a, (int, float)) and isinstance(b, (int, float)):
            return a == b
        if isinstance(a, str) and isinstance(b, str):
            return a == b
        if isinstance(a, dict) and isinstance(b, dict):
            pass
        elif isinstance(a, (list, tuple)) and isinstance(b, (list, tuple)):
            pass
        else:
            return False
    if isinstance(a, dict):
        if len(a) != len(b):
            return False
        for k in a:
            if k not in b or not same_json(a[k], b[k]):
                return False
        return True
    if isinstance(a, (list, tuple)):
        if len(a) != len(b):
            return False
        for x, y in zip(a, b):
            if not same_json(x, y):
                return False
        return True
    return a == b
