"""Plain-CPython execution of a generated obligation function with concrete
arguments (counterexample replay, native validation of explored samples, and
collection of the chuk_mcp functions that the harness enters)."""
import importlib.util
import json
import os
import sys


def main():
    req = json.loads(sys.stdin.read())
    args = eval(req["args_repr"], {"__builtins__": {"float": float, "True": True, "False": False, "None": None}})
    spec = importlib.util.spec_from_file_location("ob_mod", req["path"])
    mod = importlib.util.module_from_spec(spec)
    spec.loader.exec_module(mod)
    fn = getattr(mod, req["fn"])
    seen = set()
    src = os.path.realpath(os.environ.get("VERIF_SRC", "/repo/src"))

    def prof(frame, event, arg):
        if event == "call":
            co = frame.f_code
            fnm = co.co_filename
            if fnm.startswith(src) and not co.co_name.startswith("<"):
                seen.add(os.path.relpath(fnm, src) + ":" + getattr(co, "co_qualname", co.co_name))

    if req.get("trace"):
        sys.setprofile(prof)
    try:
        res = fn(**args)
    except BaseException as e:  # noqa
        res = f"raised:{type(e).__name__}:{e}"[:300]
    finally:
        sys.setprofile(None)
    print("NATIVE-RESULT " + json.dumps({"result": res if isinstance(res, str) else repr(res), "functions": sorted(seen)}))


if __name__ == "__main__":
    main()
