"""Size / count bounds derived from the code under test.

A bounded analysis with tiny bounds cannot see behaviour that switches at a length, a count or a position
(buffer sizes, caches, fast paths for short inputs, truncation).  Such a switch needs a NUMBER in the source.
This module reads every integer literal (and every constant-foldable arithmetic expression, e.g. `64 * 1024`,
`1 << 16`) out of the current source tree and turns them into the case splits of the explicit size / count
variables of the obligations: for every constant c the sizes c-1, c and c+1 are explored as separate paths, and
the remaining sizes stay one symbolic path.  The set is regenerated from the tree on every run, so a change that
introduces a new threshold also introduces the cases that straddle it."""
from __future__ import annotations

import ast
import functools
import operator
import os

_OPS = {ast.Mult: operator.mul, ast.Add: operator.add, ast.Sub: operator.sub, ast.LShift: operator.lshift,
        ast.Pow: operator.pow, ast.FloorDiv: operator.floordiv}

MAX_SIZE = 1 << 21  # sizes beyond 2 MiB are outside every claim (stated in the evidence)


def _fold(n):
    """value of a constant-only arithmetic expression, or None"""
    if isinstance(n, ast.Constant):
        v = n.value
        if isinstance(v, bool) or not isinstance(v, (int, float)):
            return None
        return v
    if isinstance(n, ast.UnaryOp) and isinstance(n.op, ast.USub):
        v = _fold(n.operand)
        return None if v is None else -v
    if isinstance(n, ast.BinOp) and type(n.op) in _OPS:
        a, b = _fold(n.left), _fold(n.right)
        if a is None or b is None:
            return None
        try:
            if isinstance(n.op, (ast.LShift, ast.Pow)) and (not isinstance(b, int) or b > 64 or b < 0):
                return None
            if isinstance(n.op, ast.FloorDiv) and b == 0:
                return None
            return _OPS[type(n.op)](a, b)
        except Exception:
            return None
    return None


def _stdlib_ints(tree):
    """integer constants of the standard library that the file refers to by name (io.DEFAULT_BUFFER_SIZE,
    select.PIPE_BUF, ...): thresholds that are not literals of the package but are still named in its source"""
    import importlib
    import sys

    std = getattr(sys, "stdlib_module_names", frozenset())
    mods, names = {}, {}
    for n in ast.walk(tree):
        if isinstance(n, ast.Import):
            for a in n.names:
                if a.name.split(".")[0] in std:
                    mods[(a.asname or a.name).split(".")[0]] = a.name if a.asname else a.name.split(".")[0]
        elif isinstance(n, ast.ImportFrom) and n.module and n.level == 0 and n.module.split(".")[0] in std:
            for a in n.names:
                names[a.asname or a.name] = (n.module, a.name)
    out = []

    def val(modname, attr):
        try:
            v = getattr(importlib.import_module(modname), attr)
        except Exception:
            return
        if isinstance(v, int) and not isinstance(v, bool):
            out.append(abs(v))

    for n in ast.walk(tree):
        if isinstance(n, ast.Attribute) and isinstance(n.value, ast.Name) and n.value.id in mods:
            val(mods[n.value.id], n.attr)
        elif isinstance(n, ast.Name) and n.id in names:
            val(*names[n.id])
        elif isinstance(n, ast.Call) and isinstance(n.func, ast.Name) and n.func.id == "getattr" and len(n.args) >= 2 \
                and isinstance(n.args[0], ast.Name) and n.args[0].id in mods and isinstance(n.args[1], ast.Constant) and isinstance(n.args[1].value, str):
            val(mods[n.args[0].id], n.args[1].value)
    return out


def src_root():
    return os.environ.get("VERIF_SRC") or "/repo/src"


_INTS = {}
_CASES = {}


def source_ints(sub="chuk_mcp", root=None):
    """all integers 2..MAX_SIZE that appear (possibly folded, floats rounded both ways) in root/sub/**/*.py
    (cached in a plain dict: the scan must happen at import time of a harness, not inside a traced path)"""
    root = root or src_root()
    if (sub, root) not in _INTS:
        _INTS[(sub, root)] = _scan(sub, root)
    return _INTS[(sub, root)]


def _scan(sub, root):
    out = set()
    base = os.path.join(root, sub)
    for dp, _dn, fns in os.walk(base):
        for fn in fns:
            if not fn.endswith(".py"):
                continue
            try:
                tree = ast.parse(open(os.path.join(dp, fn), encoding="utf-8").read())
            except Exception:
                continue
            for w in _stdlib_ints(tree):
                if 2 <= w <= MAX_SIZE:
                    out.add(w)
            for n in ast.walk(tree):
                v = _fold(n)
                if v is None:
                    continue
                for w in ((int(v), int(v) + 1) if isinstance(v, float) else (v,)):
                    w = abs(w)
                    if 2 <= w <= MAX_SIZE:
                        out.add(w)
    return tuple(sorted(out))


def size_cases(limit=None, sub="chuk_mcp", extra=()):
    """sorted sizes to split on: {0,1,2} + {c-1, c, c+1} for every constant of the source (<= limit)"""
    lim = MAX_SIZE if limit is None else limit
    key = (lim, sub, tuple(extra))
    if key in _CASES:
        return _CASES[key]
    s = {0, 1, 2}
    # string-size families (limit >= 70000) follow the SOURCE's constants up to MAX_SIZE: a 1 MiB threshold written
    # into the package is straddled too; count families (small limits) and the environment sizes keep the limit
    lim_src = MAX_SIZE if lim >= 70000 else lim
    for c in tuple(source_ints(sub)):
        for w in (c - 1, c, c + 1):
            if 0 <= w <= lim_src:
                s.add(w)
    for c in tuple(extra):
        for w in (c - 1, c, c + 1):
            if 0 <= w <= lim:
                s.add(w)
    _CASES[key] = tuple(sorted(s))
    return _CASES[key]


def snap(n, cases):
    """case split of a symbolic size on the given concrete cases (if-chain, rule R10): returns the concrete value
    on a matching path and the still-symbolic n otherwise"""
    for c in cases:
        if n == c:
            return c
    return n


if __name__ == "__main__":
    print(len(source_ints()), source_ints())
    print(len(size_cases()), size_cases(70000))


def pick(cases, k):
    """the k-th case as a CONCRETE value (if-chain over a symbolic selector, rule R10)"""
    for i in range(len(cases)):
        if k == i:
            return cases[i]
    return cases[-1]
