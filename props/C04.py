from symcheck.runner import Ob
from props.C13 import date_pre

ID = "C04"
HARNESS = "h_C04"
ASSUMPTIONS = [
    "'acknowledge' = answer initialize with a result; answering an unsupported or malformed request with a JSON-RPC error is also accepted as not acknowledging",
    "the server is an MCPServer built on the library's ProtocolHandler with the in-memory session manager",
    "pairing: the library client (send_initialize) is wired to the library server through a pipe stub that hands every written request to handle_message and returns its response",
]
STUBS = ["pipe stub (client write -> server handle_message -> client receive)"]
OUTSIDE = ["for unconstrained strings of length 10-12 the unchanged tree confirms in seconds, but a tree that parses the version (regex + int()) makes these obligations inconclusive; the 'within one edit of a supported version' family is the bounded region that stays decidable then", "requested version strings longer than 3 characters other than well-formed dates (all 10^8 dddd-dd-dd strings are covered)", "client supported lists longer than 2 in the pairing"]


def obligations(tier, ctx):
    obs = [
        Ob(name="arbitrary", params=[("v", "str")], pre=["len(v) <= 3"], call="H.init_version(0, v, 0)", backend="F", timeout=240, family="requested version"),
        Ob(name="wellformed_date", params=[("v", "str")], pre=date_pre("v"), call="H.init_version(0, v, 0)", backend="F", timeout=300, family="requested version"),
        Ob(name="any_len10", params=[("v", "str")], pre=["len(v) == 10"], call="H.init_version(0, v, 0)", backend="F", timeout=300, family="requested version"),
        Ob(name="any_len11", params=[("v", "str")], pre=["len(v) == 11"], call="H.init_version(0, v, 0)", backend="F", timeout=300, family="requested version"),
        Ob(name="any_len_le12", params=[("v", "str")], pre=["len(v) <= 12"], call="H.init_version(0, v, 0)", backend="F", timeout=300, family="requested version"),
        Ob(name="near_append", params=[("i", "int"), ("c", "str")], pre=["0 <= i <= 2", "len(c) <= 1"], call="H.near_version(i, 0, 0, c)", backend="F", timeout=300, family="requested version within one edit of a supported one"),
        Ob(name="near_prepend", params=[("i", "int"), ("c", "str")], pre=["0 <= i <= 2", "len(c) <= 1"], call="H.near_version(i, 1, 0, c)", backend="F", timeout=300, family="requested version within one edit of a supported one"),
        Ob(name="reinit_any", params=[("f", "int"), ("v", "str")], pre=["0 <= f <= 2", "len(v) <= 3"], call="H.reinit(f, v)", backend="F", timeout=300, family="second handshake on a live session"),
        Ob(name="reinit_supported", params=[("f", "int"), ("g", "int")], pre=["0 <= f <= 2", "0 <= g <= 2"], call="H.reinit(f, H.SUP0[0] if g == 0 else (H.SUP0[1] if g == 1 else H.SUP0[-1]))", backend="F", timeout=300, family="second handshake on a live session"),
        Ob(name="twice_any", params=[("v", "str"), ("o", "bool"), ("t", "bool")], pre=["len(v) <= 3"], call="H.init_twice(v, o, t)", backend="F", timeout=300, family="the same version requested two or three times (one server / two servers of one process)"),
        Ob(name="twice_date", params=[("v", "str"), ("o", "bool")], pre=date_pre("v"), call="H.init_twice(v, o, False)", backend="F", timeout=400, family="the same version requested two or three times (one server / two servers of one process)"),
        Ob(name="supported", params=[("i", "int")], pre=["0 <= i <= 2"], call="H.init_version(1, '', i)", backend="F", timeout=120, family="requested version"),
        Ob(name="nonstring", params=[("k", "int")], pre=["2 <= k <= 5"], call="H.init_version(k, '', 0)", backend="F", timeout=120, family="requested version"),
    ]
    for i in ((0,) if tier == "quick" else (0, 1, 2)):
        for k in range(10):
            obs.append(Ob(name=f"near_subst_v{i}_k{k}", params=[("c", "str")], pre=["len(c) == 1"], call=f"H.near_version({i}, 2, {k}, c)", backend="F", timeout=200,
                          family="requested version within one edit of a supported one"))
    L = 1 if tier == "quick" else 2
    for n in (1, 2):
        vs = [f"v{i}" for i in range(n)]
        for hp in (0, 1):
            params = [(v, "str") for v in vs] + ([("pref", "str")] if hp else [])
            pre = [f"1 <= len({v}) <= {L}" for v in vs] + ([f"1 <= len(pref) <= {L}"] if hp else [])
            obs.append(Ob(name=f"pairing_sym_s{n}_p{hp}", params=params, pre=pre, call=f"H.pairing([{', '.join(vs)}], {'pref' if hp else 'None'})",
                          backend="F", timeout=400, family="client/server pairing, invented versions"))
    # real and invented dates in the client's list (concrete per obligation), preferred version by symbolic index
    lists = [(0, 1), (1, 2), (3, 1), (5, 4)] + ([(2,), (3, 0), (4, 2), (0, 1, 2)] if tier != "quick" else [])
    for lst in lists:
        expr = "[" + ", ".join(f"H.H3.pick({i})" for i in lst) + "]"
        obs.append(Ob(name="pairing_real_" + "".join(map(str, lst)), params=[("p", "int")], pre=["-1 <= p <= 5"],
                      call=f"H.pairing({expr}, None if p < 0 else H.H3.pick(p))", backend="F", timeout=300,
                      family="client/server pairing, real and invented dates"))
    from symcheck import consts
    nsz = len(consts.size_cases(70000, extra=(4096, 8192, 65536, 131072)))
    for form in range(4):
        obs.append(Ob(name=f"long_f{form}", params=[("k", "int"), ("i", "int")], pre=[f"0 <= k < {nsz}", "0 <= i <= 2"] + (["i == 0"] if tier == "quick" else []),
                      call=f"H.init_long(k, {form}, i)", backend="P", timeout=600, family="size: requested version = a supported one with c-1, c, c+1 extra characters"))
    clim = 110 if tier == "quick" else 1100
    nc = len(consts.size_cases(clim))
    obs.append(Ob(name="nth_initialize", params=[("k", "int"), ("i", "int"), ("u", "bool")], pre=[f"0 <= k < {nc}", "0 <= i <= 2"] + (["i == 2"] if tier == "quick" else []),
                  call=f"H.init_nth(k, i, u, {clim})", backend="P", timeout=900, family="count: the (n+1)-th handshake on one server, n = c-1, c, c+1"))
    return obs
