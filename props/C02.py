from symcheck.runner import Ob
from props.C01 import discover

ID = "C02"
HARNESS = "h_C02"
ASSUMPTIONS = [
    "the reference grammar (harness, 40 lines) is JSON-RPC 2.0: version '2.0'; call = method (string) with optional string-or-integer id; response = id plus exactly one of result/error; error = integer code + string message",
    "'same kind' after parsing is judged by member presence (method+id / method / result|error), which is how the library's own parser classifies",
    "symbolic content (ids, method, leaves, code, message) runs under the pure-Python backend; the JSON text encoder is exercised on a finite corpus only (compiled codecs cannot be encoded)",
    "a null id is accepted only on an error response built for a request whose id is unknown (JSON-RPC 2.0 section 5)",
]
STUBS = ["VClock/fake_fail_after", "ScriptedReadStream", "RecordingWriteStream", "uuid4 counter"]
OUTSIDE = ["payload text through orjson / pydantic-core beyond the corpus", "ids longer than 3 characters, method names longer than 3", "transport-SYNTHESISED messages are checked in C11/C12 with the same grammar (what the transports emit for constructor-built messages is checked here)"]


def names(ctx, expr):
    import subprocess, json
    from symcheck import runner
    code = "import sys; sys.path.insert(0, %r); import harness.h_C02 as H, json; print('NAMES ' + json.dumps(%s))" % (ctx["root"], expr)
    p = subprocess.run([runner.PY, "-c", code], env=runner.base_env(runner.Ob(name="x", params=[], pre=[], call="")), capture_output=True, text=True)
    for l in p.stdout.splitlines():
        if l.startswith("NAMES "):
            return json.loads(l[6:])
    raise RuntimeError(p.stderr[-500:])


def obligations(tier, ctx):
    obs = []
    L = 2 if tier == "quick" else 3
    for which in (0, 1):
        for what, nm in ((0, "request"), (1, "notification"), (2, "response"), (3, "error")):
            for idt in (("int", "str") if what != 1 else ("int",)):
                psels = (0, 1, 2, 4, 5) if what != 3 else (0,)
                for psel in psels:
                    if tier == "quick" and which == 1 and psel not in (0, 4):
                        continue
                    params = [("rid", idt), ("method", "str"), ("leaf", "int"), ("code", "int"), ("message", "str"), ("dsel", "int")]
                    pre = ([f"len(rid) <= {L}"] if idt == "str" else []) + [f"1 <= len(method) <= {L}", "len(message) <= 2", "0 <= dsel <= 2"]
                    obs.append(Ob(name=f"ctor{which}_{nm}_{idt}_p{psel}", params=params, pre=pre,
                                  call=f"H.ctor({which}, {what}, rid, method, {psel}, leaf, code, message, dsel)", backend="F", timeout=240,
                                  family="constructors, symbolic content"))
    for which in (0, 1):
        for what in (0, 1, 2, 3):
            obs.append(Ob(name=f"ctorjson{which}_{what}", params=[("i", "int"), ("p", "int"), ("s", "int")], pre=["0 <= i <= 8", "0 <= p <= 5", "0 <= s <= 6"],
                          call=f"H.ctor_json({which}, {what}, i, p, s)", backend="P", timeout=300, family="constructors, JSON text on the corpus (Pydantic + real encoder)"))
    for which in (0, 1):
        for what in (0, 1, 2, 3):
            obs.append(Ob(name=f"ctorjsonval{which}_{what}", params=[("i", "int"), ("v", "int")], pre=["0 <= i <= 8", "0 <= v <= 7"],
                          call=f"H.ctor_json_val({which}, {what}, i, v)", backend="P", timeout=300, family="constructors, numeric/nested corpus through the real encoder (Pydantic)"))
    for what in (4, 5, 6, 7, 8):
        obs.append(Ob(name=f"wire_direct_{what}", params=[("i", "int"), ("p", "int"), ("s", "int")], pre=["0 <= i <= 8", "p in (0, 2, 4)", "s in (0, 1, 6)"],
                      call=f"H.wire_transports(0, {what}, i, p, s)", backend="P", timeout=400,
                      family="transports' serialisers for typed objects built directly (members left to their defaults)"))
    from symcheck import consts
    nsz = len(consts.size_cases(70000, extra=(4096, 8192, 65536, 131072)))
    for what in ((0, 3) if tier == "quick" else (0, 1, 2, 3, 4, 7)):
        for pat in ((6, 7, 8) if tier == "quick" else (0, 2, 4, 5, 6, 7, 8)):
            obs.append(Ob(name=f"wire_long_{what}_p{pat}", params=[("k", "int"), ("i", "int")], pre=[f"0 <= k < {nsz}", ("i == 1" if tier == "quick" else "i in (0, 1, 3)")],
                          call=f"H.wire_long(0, {what}, k, {pat}, 2, i)", backend="P", timeout=900,
                          family="size: transports' serialisers for a message whose string members have c-1, c, c+1 characters (c: integer constants of the source and environment sizes)"))
    for which in (0, 1):
        for what in (0, 1, 2, 3):
            obs.append(Ob(name=f"wire{which}_{what}", params=[("i", "int"), ("p", "int"), ("s", "int")], pre=["0 <= i <= 8", "p in (0, 2, 4)", "s in (0, 1, 2, 6)"],
                          call=f"H.wire_transports({which}, {what}, i, p, s)", backend="P", timeout=400,
                          family="transports' serialisers: stdio line, HTTP and SSE posted value for constructor-built messages (Pydantic)"))
    for n in discover(ctx):
        obs.append(Ob(name="helper_" + n, params=[("x", "int")], pre=["x == 0"], call=f"H.helper_wire({n!r})", backend="P", timeout=120, family="typed request helpers"))
    for n in names(ctx, "list(H.NOTIFIERS)"):
        for idt in ("int", "str"):
            obs.append(Ob(name="notifier_" + n.replace(".", "_") + "_" + idt, params=[("rid", idt), ("leaf", "str"), ("num", "int")],
                          pre=([f"len(rid) <= {L}"] if idt == "str" else []) + ["len(leaf) <= 2"], call=f"H.notifier({n!r}, rid, leaf, num)",
                          backend="F", timeout=200, family="notification senders"))
    for meth in ("initialize", "ping", "tools/list", "tools/call", "resources/read", "custom/raise", "nope"):
        for idt in ("int", "str"):
            obs.append(Ob(name="server_" + meth.replace("/", "_") + "_" + idt, params=[("rid", idt), ("psel", "int"), ("hsel", "int"), ("leaf", "str")],
                          pre=([f"len(rid) <= 2"] if idt == "str" else []) + ["psel in (0, 2, 6, 7, 9)", "hsel in (0, 1, 2, 5)", "len(leaf) <= 1"],
                          call=f"H.server_out({meth!r}, True, rid, psel, leaf, hsel)", backend="F", timeout=300, family="server handler outputs"))
    obs.append(Ob(name="batch_rejection", params=[("v", "int"), ("k", "int"), ("ri", "int"), ("rs", "str")], pre=["0 <= v <= 8", "0 <= k <= 2", "len(rs) <= 2"],
                  call="H.batch_rejection(v, k, ri, rs)", backend="F", timeout=240, family="batching error objects"))
    obs.append(Ob(name="batch_item_error", params=[("rid", "int")], pre=[], call="H.batch_item_error(rid)", backend="F", timeout=120, family="batching error objects"))
    from symcheck.runner import mirror
    if tier != "quick":
        import dataclasses
        # under the pure-Python backend a path through three transports costs seconds: two obligations, long timeout
        obs += [dataclasses.replace(o, timeout=1500) for o in mirror(obs, r"^(wire0_0|wire_direct_7)$", "F")]
    return obs
