from symcheck.runner import Ob

ID = "C19"
HARNESS = "h_C19"
ASSUMPTIONS = [
    "inductive step: the pre-state is ANY store of n sessions satisfying the representation invariant (key == record id, created <= last <= now); one operation re-establishes the invariant and matches the dict model, so operation histories of any length are covered",
    "time.time() returns arbitrary non-decreasing integer instants; uuid4() returns fresh values (counter)",
    "expiry is strict: a session is removed iff now - last_activity > max_age",
]
STUBS = ["time.time stub", "uuid4 counter"]
OUTSIDE = ["pre-states with more than 2 (quick) / 3 (thorough) sessions with symbolic timestamps (larger stores: sizes from the source-constant cases <= 410 / 1100, timestamps concrete)", "float timestamps", "custom session managers"]

OPS = ["create", "get", "update", "delete", "cleanup", "list", "clear", "count"]


def obligations(tier, ctx):
    obs = []
    sizes = (0, 1, 2) if tier == "quick" else (0, 1, 2, 3)
    for n in sizes:
        cs = [f"c{i}" for i in range(n)]
        ls = [f"l{i}" for i in range(n)]
        params = [(x, "int") for x in cs + ls] + [("now", "int"), ("d1", "int"), ("t", "int"), ("max_age", "int")]
        pre = [f"0 <= c{i} <= l{i} <= now" for i in range(n)] + ["0 <= now", "0 <= d1 <= 5", f"0 <= t <= {n}"]
        cl = "[" + ", ".join(cs) + "]"
        ll = "[" + ", ".join(ls) + "]"
        for op in OPS:
            obs.append(Ob(name=f"{op}_n{n}", params=params, pre=pre, call=f"H.step({op!r}, {n}, {cl}, {ll}, now, d1, t, max_age)",
                          backend="P", timeout=120, family="session store step"))
        params2 = [(x, "int") for x in cs + ls] + [("now", "int"), ("d1", "int"), ("t", "int"), ("idsel", "int")]
        for op in ("initialize", "initialize_sid", "request", "request_unknown", "request_failing", "notification_unknown"):
            obs.append(Ob(name=f"handler_{op}_n{n}", params=params2, pre=pre + ["0 <= idsel <= 4"], call=f"H.handler_step({op!r}, {n}, {cl}, {ll}, now, d1, t, idsel)",
                          backend="P", timeout=120, family="protocol handler step"))
    from symcheck import consts
    lim = 410 if tier == "quick" else 1100
    nc, nc1 = len(consts.size_cases(lim)), len(consts.size_cases(1100))
    for op in OPS:
        if tier == "quick" and op in ("list", "count", "clear"):
            continue
        big = op in ("create", "cleanup")
        obs.append(Ob(name=f"{op}_many", params=[("k", "int"), ("tsel", "int"), ("agesel", "int")],
                      pre=[f"0 <= k < {nc1 if big else nc}", ("0 <= tsel <= 3" if op in ("get", "update", "delete") else "tsel == 0"), ("0 <= agesel <= 3" if op == "cleanup" else "agesel == 0")],
                      call=f"H.step_many({op!r}, k, tsel, agesel, {1100 if big else lim})", backend="P", timeout=900, family="count: one operation on a store of c-1, c, c+1 sessions (c: integer constants of the source)"))
    for op in ("initialize", "initialize_sid", "request"):
        obs.append(Ob(name=f"handler_{op}_many", params=[("k", "int"), ("tsel", "int"), ("idsel", "int")],
                      pre=[f"0 <= k < {nc1 if op == 'initialize' else nc}", ("0 <= tsel <= 3" if op != "initialize" else "tsel == 3"), ("0 <= idsel <= 1" if op != "request" else "idsel == 0")],
                      call=f"H.handler_many({op!r}, k, tsel, idsel, {1100 if op == 'initialize' else lim})", backend="P", timeout=900, family="count: one handler step on a store of c-1, c, c+1 sessions"))
    for be in ("P", "F"):
        obs.append(Ob(name=f"handler_initialize_clientinfo_{be}", params=[("now", "int"), ("ci", "int"), ("idsel", "int"), ("sid", "bool")], pre=["0 <= now", "0 <= ci <= 5", "idsel in (0, 2)"],
                      call="H.handler_step_ci('initialize_sid' if sid else 'initialize', 1, [0], [0], now, 1, 0, idsel, ci)", backend=be, timeout=300,
                      family="protocol handler step: shapes of clientInfo (null / falsy / nested / template-like members, empty object)"))
    obs.append(Ob(name="unique_ids", params=[("x", "int")], pre=["x == 0"], call="H.unique_ids(5)", backend="P", timeout=60, family="id generation"))
    from symcheck.runner import mirror
    obs += mirror(obs, r"^handler_(initialize|initialize_sid|request|request_unknown|notification_unknown)_n1$", "F", limit=(5 if tier == "quick" else None))
    return obs
