from symcheck.runner import Ob

ID = "C13"
HARNESS = "h_C13"
DIG = "0123456789"


def date_pre(v):
    # `c in "0123456789"` is what z3 closes in seconds; `'0' <= c <= '9'` does not finish
    cs = ", ".join(f"{v}[{i}]" for i in (0, 1, 2, 3, 5, 6, 8, 9))
    return [f"len({v}) == 10", f"{v}[4] == '-' and {v}[7] == '-'", f'all(c in "0123456789" for c in ({cs}))']


ASSUMPTIONS = [
    "well-formed version = exactly dddd-dd-dd with ASCII digits (all 10^8 such strings, any year)",
    "the reference for 'older than 2025-06-18' is the lexicographic order of fixed-width ASCII dates, plus the library's own ProtocolVersion.compare",
    "transport obligations run StdioClient._process_message_data on a client whose process and internal streams are recording fakes",
]
STUBS = ["FakeProcess/FakeStdin", "recording internal streams"]
OUTSIDE = ["non-ASCII digits accepted by \\\\d, years with other than 4 digits", "batches with more than 3 (quick) / 4 (thorough) symbolic members (larger batches: member counts from the source-constant cases <= 410 / 1100, three concrete member patterns)", "member contents beyond the five kinds"]


def obligations(tier, ctx):
    obs = [
        Ob(name="decision", params=[("s", "str")], pre=date_pre("s"), call="H.decision(s)", backend="P", timeout=240, family="decision function"),
        Ob(name="monotone", params=[("s", "str"), ("t", "str")], pre=date_pre("s") + date_pre("t") + ["s <= t"], call="H.monotone(s, t)", backend="P", timeout=300, family="decision function"),
        Ob(name="unversioned", params=[("x", "int")], pre=["x == 0"], call="H.unversioned()", backend="P", timeout=30, family="decision function"),
        Ob(name="single", params=[("v", "int"), ("m", "int")], pre=["0 <= v <= 8", "0 <= m <= 3"], call="H.single(v, m)", backend="P", timeout=120, family="transport"),
    ]
    nmax = 2 if tier == "quick" else 4
    for n in range(0, nmax + 1):
        if n <= 2:
            ms = [f"m{i}" for i in range(n)]
            obs.append(Ob(name=f"transport_n{n}", params=[("v", "int")] + [(m, "int") for m in ms],
                          pre=["0 <= v <= 8"] + [f"0 <= {m} <= 4" for m in ms], call=f"H.transport(v, [{', '.join(ms)}])",
                          backend="P", timeout=240, family="transport"))
        else:
            # first members concrete per obligation to share the paths between workers
            import itertools
            for head in itertools.product(range(5), repeat=n - 2):
                ms = ["m0", "m1"]
                lst = ", ".join([str(h) for h in head] + ms)
                obs.append(Ob(name=f"transport_n{n}_h{''.join(map(str, head))}", params=[("v", "int"), ("m0", "int"), ("m1", "int")],
                              pre=["0 <= v <= 8", "0 <= m0 <= 4", "0 <= m1 <= 4"], call=f"H.transport(v, [{lst}])",
                              backend="P", timeout=300, family="transport"))
    for sels in ([0, 1], [2, 3, 0]) if tier == "quick" else ([0, 1], [2, 3, 0], [], [1, 1, 4, 0]):
        obs.append(Ob(name="transport_date_" + "".join(map(str, sels)), params=[("s", "str")], pre=date_pre("s"),
                      call=f"H.transport_date(s, {sels!r})", backend="P", timeout=300, family="transport / symbolic date"))
    obs.append(Ob(name="after_handshake", params=[("v", "int"), ("f", "int"), ("a", "int")], pre=["0 <= v <= 7", "-1 <= f <= 7", "0 <= a <= 4"],
                  call="H.after_handshake(v, f, [a, 0, 1])", backend="P", timeout=400, family="batch after a real handshake (tracked client), listed and unlisted versions"))
    obs.append(Ob(name="repeat", params=[("v", "int"), ("a", "int"), ("b", "int")], pre=["0 <= v <= 8", "0 <= a <= 4", "0 <= b <= 4"],
                  call="H.repeat(v, [a, 0], [1, b], [a])", backend="P", timeout=300, family="several batches under one negotiated version"))
    pairs = [(0, 3), (2, 3), (3, 2), (4, 5)] if tier == "quick" else [(0, 3), (2, 3), (3, 2), (4, 5), (5, 4), (1, 7), (7, 0), (3, 3), (8, 6)]
    for v1, v2 in pairs:
        obs.append(Ob(name=f"history_{v1}{v2}", params=[("a", "int"), ("b", "int")],
                      pre=["0 <= a <= 4", "0 <= b <= 4"], call=f"H.history({v1}, {v2}, [a, 0], [1, b])",
                      backend="P", timeout=200, family="version change mid-connection"))
    from symcheck import consts
    blim = 410 if tier == "quick" else 1100
    nb = len(consts.size_cases(blim))
    for pat in (1, 2) if tier == "quick" else (0, 1, 2):
        for v in (0, 2, 3):
            if tier == "quick" and v == 0:
                continue
            obs.append(Ob(name=f"big_batch_v{v}_p{pat}", params=[("k", "int")], pre=[f"0 <= k < {nb}"], call=f"H.big_batch({v}, k, {pat}, {blim})", backend="P", timeout=600,
                          family="count: batches of c-1, c, c+1 members for the integer constants c of the source"))
    from symcheck.runner import mirror
    obs += mirror(obs, r"^(transport_n[012]|single|repeat|history_03|history_03)$", "F", limit=(3 if tier == "quick" else None))
    return obs
