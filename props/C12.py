import itertools
from symcheck.runner import Ob

ID = "C12"
HARNESS = "h_C12"
ASSUMPTIONS = [
    "the transport module's `asyncio` is replaced by a shim: create_task runs the coroutine eagerly until it parks; wait_for(x, t) completes iff x can complete with the external events still to come (the undelivered chunks of the event stream, delivered one at a time), else raises TimeoutError; Event/Future/Lock are trivial single-threaded versions. The schedule is thereby sequentialised: the only interleaving choices are whether a stream chunk is delivered while the POST is in flight or after it returned",
    "httpx is a fake: stream() context yields a response with a status and an async text iterator fed by the world, post() returns status/body or raises",
    "'slow announcement' = the endpoint event arrives after other stream traffic but before the timeout; 'never' = the stream ends or stays silent",
    "(a) judges chunk independence relationally (chunked == unchunked) and exactly-once/in-order delivery for the canonical encoding the legacy SSE servers use (event: name / data: payload / blank line); other spec-conformant encodings are C11's subject",
]
STUBS = ["AsyncioShim", "fake httpx (stream/post/aclose)", "fake memory object streams", "recording incoming stream"]
OUTSIDE = ["arbitrary task interleavings beyond the shim's choice points", "release of sockets/file descriptors by the real httpx", "announcement timing in real time", "outer cancellation at arbitrary points of a request's life"]

KINDS = ["endpoint", "resp", "note", "bare", "keepalive", "comment"]


def obligations(tier, ctx):
    obs = []
    tuples = [("endpoint", "resp"), ("note", "resp"), ("endpoint", "note", "resp")] + ([("bare", "keepalive", "resp"), ("comment", "note", "note"), ("resp", "resp")] if tier != "quick" else [])
    for kt in tuples:
        for crlf in (False, True):
            for d in ((0,) if tier == "quick" else (0, 1, 2)):
                if tier == "quick" and crlf and len(kt) > 2:
                    continue
                obs.append(Ob(name="chunk_" + "_".join(kt) + ("_crlf" if crlf else "") + f"_d{d}", params=[("i", "int")],
                              pre=["0 <= i", f"i + {d} <= H.text_len({kt!r}, {crlf})"], call=f"H.chunking({kt!r}, {crlf}, i, {d})",
                              backend="P", timeout=300, family="(a) event-stream chunking: every byte cut position (also inside multi-byte characters)"))
    from symcheck import consts
    ENV_SIZES = (4096, 8192, 65536, 131072)
    lim = 70000 if tier == "quick" else 140000
    nsz = len(consts.size_cases(lim, extra=ENV_SIZES))
    for pat, cut in (((0, 0), (5, 2), (6, 0), (7, 1), (8, 3)) if tier == "quick" else ((0, 0), (0, 1), (0, 2), (0, 3), (0, 4), (5, 0), (5, 2), (4, 2), (1, 1), (6, 0), (7, 0), (8, 0), (6, 2), (7, 1), (8, 3))):
        obs.append(Ob(name=f"chunk_long_p{pat}_c{cut}", params=[("k", "int")], pre=[f"0 <= k < {nsz}"], call=f"H.chunking_long(k, {pat}, {cut}, {lim})", backend="P", timeout=900,
                      family="(a) size: an event line of c-1, c, c+1 characters (c: integer constants of the source and environment sizes), five ways of cutting it"))
    from harness_sizes_n import N_TEXTS
    for cut, crlf in (((3, False), (2, True)) if tier == "quick" else ((0, False), (1, False), (2, False), (3, False), (2, True), (3, True))):
        obs.append(Ob(name=f"chunk_text_c{cut}{'_crlf' if crlf else ''}", params=[("i", "int")], pre=[f"0 <= i < {N_TEXTS}"], call=f"H.chunking_text(i, {cut}, {crlf})", backend="P", timeout=600,
                      family="(a) content corpus: event payload carrying 'active' text raw (separators that str.splitlines honours, BOM, templates, JSON-looking text)"))
    for via in (False, True):
        tag = "client" if via else "transport"
        obs.append(Ob(name=f"establish_refused_{tag}", params=[("n", "bool")], pre=[], call=f"H.establish(0, 200, 0, n, {via})", backend="P", timeout=120, family="(b) live-or-raise"))
        obs.append(Ob(name=f"establish_status_{tag}", params=[("status", "int")], pre=["100 <= status <= 599"], call=f"H.establish(1, status, 0, False, {via})", backend="P", timeout=120, family="(b) live-or-raise"))
        obs.append(Ob(name=f"establish_announced_{tag}", params=[("form", "int"), ("slow", "bool")], pre=["0 <= form <= 4"], call=f"H.establish(5 if slow else 2, 200, form, False, {via})", backend="P", timeout=120, family="(b) live-or-raise"))
        obs.append(Ob(name=f"establish_never_{tag}", params=[("ends", "bool"), ("n", "bool")], pre=[], call=f"H.establish(3 if ends else 4, 200, 0, n, {via})", backend="P", timeout=120, family="(b) live-or-raise"))
    for mode in range(6):
        params = [("idsel", "int"), ("bodysel", "int"), ("noise", "bool")] + ([("status", "int")] if mode == 4 else [])
        pre = ["0 <= idsel <= 3", "0 <= bodysel <= 2"] + (["100 <= status <= 599", "status != 200", "status != 202"] if mode == 4 else [])
        obs.append(Ob(name=f"request_mode{mode}", params=params, pre=pre, call=f"H.request_mode({mode}, {'status' if mode == 4 else 200}, idsel, bodysel, noise)",
                      backend="P", timeout=200, family="(c) one terminal message per request"))
    obs.append(Ob(name="after_ended", params=[("end", "int"), ("idsel", "int"), ("status", "int"), ("second", "int")], pre=["0 <= end <= 4", "0 <= idsel <= 3", "status in (400, 404, 500, 503, 204, 301)", "0 <= second <= 1"],
                  call="H.after_ended(end, idsel, status, second)", backend="P", timeout=400, family="(c) after a request has ended (answered, failed, timed out), its id reappears on the event stream"))
    obs.append(Ob(name="notification", params=[("status", "int"), ("raises", "bool")], pre=["100 <= status <= 599"], call="H.notification_post(status, raises)", backend="P", timeout=120, family="(c) notifications"))
    for m in (0, 1):
        obs.append(Ob(name=f"cleanup_{m}", params=[("x", "int")], pre=["x == 0"], call=f"H.cleanup({m})", backend="P", timeout=60, family="leaving the context releases tasks, stream and clients"))
    from symcheck.runner import mirror
    obs += mirror(obs, r"^(request_mode[0-5]|notification)$", "F", limit=(3 if tier == "quick" else None))
    return obs


def extra(tier, ctx):
    """the same establishment / per-request scenarios on the REAL asyncio loop with the REAL httpx client (MockTransport server)"""
    import subprocess, json
    from symcheck import runner
    p = subprocess.run([runner.PY, "-m", "harness.real_sse"], env=runner.base_env(runner.Ob(name="x", params=[], pre=[], call="")),
                       capture_output=True, text=True, cwd=ctx["root"], timeout=300)
    for l in p.stdout.splitlines():
        if l.startswith("REALSSE "):
            d = json.loads(l[8:])
            res = {"validated": d["runs"], "real_asyncio_httpx_runs": d["details"]}
            if d["violations"]:
                res["violations"] = [{"reason": v["reason"], "witness": v["case"]} for v in d["violations"]]
            return res
    return {"error": "real SSE run crashed: " + (p.stderr or p.stdout)[-600:]}


def replay_extra(rec):
    return rec.get("reason", "not-ok")
