from symcheck.runner import Ob
from props.C09 import lossless_obligations, model_table

ID = "C10"
HARNESS = "h_C10"
ASSUMPTIONS = [
    "lossless view: the obligations are C09's model x shape obligations (validate, dump with wire names == wire object + declared defaults, unknown members and aliased members kept under their wire names), restricted in the quick tier to the models that declare aliases or nest other models; the thorough tier runs them for every discovered model",
    "library-side serialisers are discovered by an AST walk for .model_dump( / .model_dump_json( calls outside the base module; each one that turns a typed object into wire data has a driver; discovered call sites without a driver are listed in the evidence (uncovered_serialisers) and make the check inconclusive for them, never green by omission",
    "aliased values carry a sentinel so that the key they appear under can be identified in the produced wire data",
    "pure-Python backend for symbolic leaves; the Pydantic side is covered by C09's two-backend witnesses",
]
STUBS = ["VClock/ScriptedReadStream/RecordingWriteStream (to capture written requests)", "asyncio.Future stub for the elicitation handler"]
OUTSIDE = ["Pydantic side beyond witnesses (see C09)", "string leaves longer than 2"]


def aliased_or_nested(key):
    return any(x in key for x in ("Resource", "Tool", "CreateMessageResult", "Elicitation", "StructuredContent", "CallTool", "SamplingMessage", "GetPromptResult", "InitializeResult", "ListRoots"))


def obligations(tier, ctx):
    obs = lossless_obligations(tier, ctx, keep=aliased_or_nested if tier == "quick" else None)
    for o in obs:
        o.call = o.call.replace("H.lossless(", "H.lossless(")
    import subprocess, json
    from symcheck import runner
    code = "import sys, json; sys.path.insert(0, %r); import harness.h_models as H; print('PAIRS ' + json.dumps(H.same_name_pairs()))" % ctx["root"]
    p = subprocess.run([runner.PY, "-c", code], env=runner.base_env(runner.Ob(name="x", params=[], pre=[], call="", backend="F")), capture_output=True, text=True)
    pairs = []
    for l in p.stdout.splitlines():
        if l.startswith("PAIRS "):
            pairs = json.loads(l[6:])
    L = 1 if tier == "quick" else 2
    for a, b in pairs:
        nm = a.split(".")[-3][:5] + a.split(".")[-2][:6] + "_then_" + b.split(".")[-3][:5] + b.split(".")[-2][:6] + "_" + a.split(".")[-1]
        obs.append(Ob(name="pair_" + nm, params=[("s0", "str"), ("s1", "str"), ("i0", "int"), ("b0", "bool")], pre=[f"len(s0) <= {L}", f"len(s1) <= {L}"],
                      call=f"H.pair_order({a!r}, {b!r}, s0, s1, i0, b0)", backend="F", timeout=300,
                      family="same-named model classes used one after the other in one process (order-dependent state)"))
    S = [("s", "str")]
    obs += [
        Ob(name="ser_elicitation", params=[("message", "str"), ("leaf", "str"), ("title", "str")], pre=["len(message) <= 2", "len(leaf) <= 2", "1 <= len(title) <= 2"],
           call="H.elicitation_request(message, leaf, title)", backend="F", timeout=200, family="library-side serialisers"),
        Ob(name="ser_tool_result", params=[("text", "str"), ("leaf", "int"), ("err", "bool")], pre=["len(text) <= 2"],
           call="H.tool_result_dict(text, leaf, err)", backend="F", timeout=200, family="library-side serialisers"),
        Ob(name="ser_content", params=[("w", "int"), ("s", "str")], pre=["0 <= w <= 3", "len(s) <= 2"], call="H.content_dict(w, s, 0)", backend="F", timeout=200, family="library-side serialisers"),
        Ob(name="ser_sampling", params=[("text", "str"), ("name", "str"), ("leaf", "int")], pre=["len(text) <= 2", "len(name) <= 2"],
           call="H.sampling_request(text, name, leaf)", backend="F", timeout=300, family="library-side serialisers"),
        Ob(name="ser_completion", params=[("name", "str"), ("value", "str"), ("uri", "str")], pre=["len(name) <= 2", "len(value) <= 2", "len(uri) <= 2"],
           call="H.completion_request(name, value, uri)", backend="F", timeout=300, family="library-side serialisers"),
        Ob(name="ser_roots_int", params=[("name", "str"), ("rid", "int")], pre=["1 <= len(name) <= 2"], call="H.roots_response(name, rid)", backend="F", timeout=200, family="library-side serialisers"),
        Ob(name="ser_roots_str", params=[("name", "str"), ("rid", "str")], pre=["1 <= len(name) <= 2", "len(rid) <= 2"], call="H.roots_response(name, rid)", backend="F", timeout=200, family="library-side serialisers"),
        Ob(name="ser_initialize", params=[("v", "str")], pre=["1 <= len(v) <= 2"], call="H.initialize_request(v)", backend="F", timeout=300, family="library-side serialisers"),
    ]
    from symcheck import consts
    nsz = len(consts.size_cases(70000, extra=(4096, 8192, 65536, 131072)))
    for which in range(7):
        for be in ("P", "F"):
            if tier == "quick" and be == "F" and which not in (0, 1):
                continue
            for pat in ((7,) if tier == "quick" else (0, 4, 6, 7, 8)):
                obs.append(Ob(name=f"ser_long_{which}_{be}_p{pat}", params=[("k", "int")], pre=[f"0 <= k < {nsz}"], call=f"H.ser_long({which}, k, {pat})", backend=be, timeout=900,
                              family="size: library-side serialisers with strings of c-1, c, c+1 characters (c: integer constants of the source and environment sizes), both backends"))
    return obs


def extra(tier, ctx):
    import subprocess, json
    from symcheck import runner
    code = ("import sys, json; sys.path.insert(0, %r); import harness.h_C10 as H; "
            "print('SER ' + json.dumps({'found': H.discover_serialisers(), 'drivers': H.DRIVERS, 'aliased': H.ALIASED}))") % ctx["root"]
    p = subprocess.run([runner.PY, "-c", code], env=runner.base_env(runner.Ob(name="x", params=[], pre=[], call="", backend="F")), capture_output=True, text=True)
    for l in p.stdout.splitlines():
        if l.startswith("SER "):
            d = json.loads(l[4:])
            uncovered = [f for f in d["found"] if f not in d["drivers"]]
            res = {"validated": len(d["found"]), "serialiser_call_sites_discovered": d["found"], "aliased_fields_discovered": d["aliased"],
                   "uncovered_serialisers": uncovered}
            res.update(big_lists_native(tier, ctx))
            return res
    return {"error": "serialiser discovery crashed: " + p.stderr[-400:]}


def big_lists_native(tier, ctx):
    """count dimension under the pure-Python backend, natively (the engine's tracing makes that backend cost seconds
    per list item): every model with a list member, outermost lists of c-1, c, c+1 items for the integer constants
    c of the source (<= 410 quick / 1100 thorough)"""
    import subprocess, json
    from symcheck import runner, consts
    code = "import sys, json; sys.path.insert(0, %r); import harness.h_models as H; print('LISTS ' + json.dumps([k for k in H.MODELS if H.has_list(k)]))" % ctx["root"]
    p = subprocess.run([runner.PY, "-c", code], env=runner.base_env(runner.Ob(name="x", params=[], pre=[], call="", backend="F")), capture_output=True, text=True)
    keys = []
    for l in p.stdout.splitlines():
        if l.startswith("LISTS "):
            keys = json.loads(l[6:])
    lim = 410 if tier == "quick" else 1100
    n = len(consts.size_cases(lim))
    if tier == "quick":
        keys = [k for k in keys if k.split(".")[-1] in ("ListToolsResult", "CallToolResult", "ReadResourceResult", "ListResourcesResult", "GetPromptResult", "ListRootsResult", "CreateMessageRequest", "ToolResult")]
    calls = [["biglist:" + k.split(".")[-1], "H.lossless_big(%r, {k}, 1, 0, %d)" % (k, lim), n] for k in keys]
    r = runner.native_cases("harness.h_models", calls, backend="F")
    out = {("fallback_" + a): b for a, b in r.items() if a not in ("violations", "error")}
    out["fallback_big_list_models"] = [k.split(".")[-1] for k in keys]
    if "violations" in r:
        out["violations"] = r["violations"]
    if "error" in r:
        out["error"] = r["error"]
    return out


def replay_extra(rec):
    """re-run the recorded native case"""
    from symcheck import runner
    call = (rec.get("witness") or {}).get("call")
    if not call:
        return "no-replay"
    r = runner.native_cases("harness.h_models", [["replay", call, 1]], backend="F")
    v = r.get("violations")
    return v[0]["reason"] if v else "ok"
