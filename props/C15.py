from symcheck.runner import Ob

ID = "C15"
HARNESS = "h_C15"
ASSUMPTIONS = [
    "object level only: the same DECODED server message (request, notification, result, error; params/result shapes with nested nulls; symbolic id, method and leaves) is pushed through the four inbound paths - stdio line handler, Streamable HTTP JSON body, Streamable HTTP SSE body, legacy SSE event - and the objects put on the read stream must all equal the message (kind, id incl. JSON type, method, payload); the same for conversations of 0-2 notifications followed by a response (order preserved)",
    "outbound: the value handed to each carrier's JSON encoder (stdio: the dict given to json.dumps; HTTP and legacy SSE: the json= argument of post) must equal the message with absent optional members omitted",
    "JSON TEXT codecs (orjson vs httpx's json vs SSE line framing of arbitrary Unicode) are compiled code: decoding is stubbed by a token table, encoding observed at the encoder's input; helper results then follow from C01 given equal read-stream contents",
]
STUBS = ["token JSON decoder", "encoder-input recorder", "FakeHttpx (C11)", "AsyncioShim + fake httpx (C12)", "FakeProcess (stdio)"]
OUTSIDE = ["text codecs", "chunking (C05, C12)", "timing", "integer ids other than {0, -1, 5, 2^63, 12345678901234567890} (str() of a symbolic integer is enumerated digit by digit); string ids are symbolic"]


def obligations(tier, ctx):
    obs = []
    L = 1 if tier == "quick" else 2
    for kind, nm in ((0, "result"), (1, "error"), (2, "notification"), (3, "request")):
        for idt in (("int", "str") if kind != 2 else ("int",)):
            psels = ((1, 4) if kind in (0, 3) else (4,)) if tier == "quick" else (0, 1, 2, 3, 4, 5)
            for psel in psels:
                params = [("rid", idt), ("method", "str"), ("leaf", "str")]
                pre = ([f"1 <= len(rid) <= 2"] if idt == "str" else [("0 <= rid <= 2" if tier == "quick" else "0 <= rid <= 4")]) + [f"1 <= len(method) <= {L + 1}", f"len(leaf) <= {L}"]
                fn = "inbound" if idt == "str" else "inbound_i"
                obs.append(Ob(name=f"inbound_{nm}_{idt}_p{psel}", params=params, pre=pre, call=f"H.{fn}({kind}, rid, method, {psel}, leaf)",
                              backend="F", timeout=300, family="inbound: one message through four carriers"))
    for n in (0, 1, 2):
        for err in (False, True):
            if tier == "quick" and (n == 1 or (n == 0 and err)):
                continue
            obs.append(Ob(name=f"conversation_n{n}_{'err' if err else 'res'}", params=[("rid", "int"), ("leaf", "str")], pre=[("1 <= rid <= 2" if tier == "quick" else "0 <= rid <= 4"), f"len(leaf) <= {L}"],
                          call=f"H.conversation_i({n}, rid, leaf, {err})", backend="F", timeout=400, family="conversations: order of notifications and response"))
    for kind in (0, 1):
        for typed in (True, False):
            for idt in (("int", "str") if kind == 0 else ("int",)):
                obs.append(Ob(name=f"outbound_{'req' if kind == 0 else 'notif'}_{'typed' if typed else 'dict'}_{idt}",
                              params=[("rid", "int"), ("method", "str"), ("psel", "int"), ("leaf", "str")],
                              pre=(["0 <= rid <= 3"] if idt == "str" else ["0 <= rid <= 4"]) + ["1 <= len(method) <= 2", ("psel in (1, 4)" if tier == "quick" else "psel in (0, 1, 2, 4)"), "len(leaf) <= 1"] + (["rid in (0, 3)"] if tier == "quick" else []),
                              call=f"H.outbound{'_s' if idt == 'str' else '_i'}({kind}, rid, method, psel, leaf, {typed})", backend="F", timeout=400, family="outbound: value handed to each carrier's encoder"))
    for typed in (True, False):
        if tier == "quick" and not typed:
            continue
        for mode in (0, 1, 2):
            obs.append(Ob(name=f"roundtrip_{'typed' if typed else 'dict'}_mode{mode}", params=[("a", "int"), ("b", "int"), ("n", "int")],
                          pre=(["0 <= a <= 2", "0 <= b <= 1", "n in (0, 1)"] if tier == "quick" else ["0 <= a <= 4", "0 <= b <= 4", "0 <= n <= 2"]),
                          call=f"H.roundtrip(a, b, n, {mode}, {typed})", backend="F", timeout=400 if tier == "quick" else 1500,
                          family="round trips: two requests (ids 'r1', 5, 0, '5', -7), each answered the carrier's own way"))
    for n in ((2, 3) if tier == "quick" else (0, 1, 2, 3, 4)):
        obs.append(Ob(name=f"undrained_n{n}", params=[("cap", "int"), ("r", "int"), ("e", "bool")], pre=["0 <= cap <= 4", "0 <= r <= 4"] + (["r == 1"] if tier == "quick" else []),
                      call=f"H.conversation_undrained({n}, cap, r, e)", backend="F", timeout=600 if tier == "quick" else 1500, family="the stdio client's notification side stream is never read (symbolic capacity 0..4)"))
    from symcheck import consts as _c
    clim = 110 if tier == "quick" else 410
    obs.append(Ob(name="many_notifications", params=[("k", "int")], pre=[f"0 <= k < {len(_c.size_cases(clim))}"], call=f"H.conversation_many(k, 100, {clim})", backend="P", timeout=1200,
                  family="count: c-1, c, c+1 notifications before the response, notification side stream of capacity 100 never read"))
    from symcheck import consts
    nsz = len(consts.size_cases(70000, extra=(4096, 8192, 65536, 131072)))
    for mode in ((1,) if tier == "quick" else (0, 1, 2)):
        for pat in ((5,) if tier == "quick" else (0, 2, 4, 5)):
            obs.append(Ob(name=f"roundtrip_long_mode{mode}_p{pat}", params=[("k", "int")], pre=[f"0 <= k < {nsz}"], call=f"H.roundtrip_long(k, {pat}, {mode}, True)", backend="P", timeout=900,
                          family="size: round trips whose results and notifications carry a string of c-1, c, c+1 characters (c: integer constants of the source and environment sizes)"))
    return obs
