from symcheck.runner import Ob

ID = "C20"
HARNESS = "h_C20"
ASSUMPTIONS = [
    "file I/O is not the subject: open/json.load of the config module return the (symbolic) configuration object; anyio.open_process records (argv, env) and returns a fake process; the task group is a no-op; send_initialize in the entry point's namespace records that the handshake was reached",
    "an absent or EMPTY env object means 'default inherited environment' (the code treats {} as absent; accepted as conforming); a non-empty env is used exactly, without merging",
    "the three configuration-error classes are run natively on real temporary files (finite, not a solver question)",
]
STUBS = ["config open/json.load shim", "open_process recorder", "no-op task group", "send_initialize recorder", "asyncio shim for the runner's cleanup", "anyio.run = drive", "os.system no-op"]
OUTSIDE = ["symbolic command strings longer than 2 characters, more than 2 symbolic args (longer / more: sizes from the source-constant cases, concrete content)", "real process spawn", "timeouts other than the four listed shapes"]


def obligations(tier, ctx):
    obs = []
    for nargs in (0, 1, 2):
        a = [f"a{i}" for i in range(nargs)]
        al = "[" + ", ".join(a) + "]"
        base_params = [("command", "str")] + [(x, "str") for x in a] + [("envval", "str")]
        base_pre = ["1 <= len(command) <= 2"] + [f"len({x}) <= 2" for x in a] + ["len(envval) <= 2"]
        for envsel in (0, 1, 2, 3, 4):
            if tier == "quick" and ((nargs == 2 and envsel in (1, 3)) or (envsel == 4 and nargs != 1)):
                continue
            obs.append(Ob(name=f"loader_a{nargs}_e{envsel}", params=base_params + [("tsel", "int"), ("extra", "bool"), ("others", "bool")],
                          pre=base_pre + ["0 <= tsel <= 3"], call=f"H.loader(command, {al}, {envsel}, envval, tsel, extra, others)",
                          backend="F", timeout=300, family="configuration loader -> spawn"))
            obs.append(Ob(name=f"cli_a{nargs}_e{envsel}", params=base_params, pre=base_pre,
                          call=f"H.cli_test_server(command, {al}, {envsel}, envval, 0)", backend="F", timeout=300, family="CLI connectivity test"))
            for ns in (1, 2):
                if tier == "quick" and ns == 2 and not (nargs == 1 and envsel == 2):
                    continue
                obs.append(Ob(name=f"runner_a{nargs}_e{envsel}_s{ns}", params=base_params, pre=base_pre,
                              call=f"H.runner(command, {al}, {envsel}, envval, {ns})", backend="F", timeout=300, family="multi-server runner"))
    # realistic command/argument texts (bare names present on the host PATH, absolute and relative paths, spaces, quotes, Unicode, empty argument)
    for which, nm in ((0, "loader"), (1, "cli"), (2, "runner")):
        obs.append(Ob(name=f"corpus_{nm}", params=[("c", "int"), ("a", "int"), ("e", "int")], pre=["0 <= c <= 5", "0 <= a <= 8", "0 <= e <= 4"],
                      call=f"H.corpus_entry({which}, c, a, e)", backend="P", timeout=300, family="command/argument corpus by symbolic index (Pydantic backend)"))
    from symcheck import consts
    nsz = len(consts.size_cases(70000, extra=(4096, 8192, 65536, 131072)))
    clim = 210 if tier == "quick" else 1100
    nc = len(consts.size_cases(clim))
    for form in range(6):
        for which in ((0,) if form in (4, 5) else ((0, 2) if tier == "quick" else (0, 1, 2))):
            for pat in ((5,) if (tier == "quick" or form not in (0, 3)) else (0, 4, 5)):
                obs.append(Ob(name=f"big_f{form}_w{which}_p{pat}", params=[("k", "int")], pre=[f"0 <= k < {nsz if form in (0, 2, 3) else nc}"], call=f"H.big_entry({which}, k, {form}, {pat}, {clim})",
                              backend="P", timeout=900, family="size / count: argument, command or environment value of c-1, c, c+1 characters; c-1, c, c+1 arguments, variables or other servers"))
    return obs


def extra(tier, ctx):
    import subprocess, json, os
    from symcheck import runner
    wd = os.path.join(ctx["workdir"], "cfgfiles")
    code = "import sys, json; sys.path.insert(0, %r); import harness.h_C20 as H; print('CFG ' + json.dumps(H.config_errors(%r)))" % (ctx["root"], wd)
    p = subprocess.run([runner.PY, "-c", code], env=runner.base_env(runner.Ob(name="x", params=[], pre=[], call="")), capture_output=True, text=True)
    for l in p.stdout.splitlines():
        if l.startswith("CFG "):
            d = json.loads(l[4:])
            res = {"validated": d["cases"], "config_error_classes_run_natively": d["cases"]}
            if d["bad"]:
                res["violations"] = [{"reason": "config-error-class:" + b["case"] + ":" + b["reason"], "witness": b["case"]} for b in d["bad"]]
            return res
    return {"error": "config error run crashed: " + p.stderr[-400:]}


def replay_extra(rec):
    return rec.get("reason", "not-ok")
