from symcheck.runner import Ob

ID = "C08"
HARNESS = "h_C08"
ASSUMPTIONS = [
    "a 'well-formed incoming request/notification' is one the library's own message type accepts (JSONRPCMessage construction succeeds); messages it refuses are outside the property",
    "the server under test is an MCPServer with one tool, one resource and three custom methods whose behaviour is chosen by selector (returns str/dict/list/None/object, raises Exception, raises ValueError with symbolic text)",
    "for a tool name or uri of the wrong JSON type either -32602 or -32603 is accepted; for null arguments a result or either code",
]
STUBS = []
OUTSIDE = ["the text of a handler's exception (formatting it realises a symbolic string); concrete text only", "method strings longer than 3 characters other than the registered/standard names", "custom handlers that return something other than a (response, session) pair"]


def n_methods(ctx):
    import subprocess, json
    from symcheck import runner
    code = "import sys; sys.path.insert(0, %r); import harness.h_C08 as H; print('N', H.N_METHODS)" % ctx["root"]
    p = subprocess.run([runner.PY, "-c", code], env=runner.base_env(runner.Ob(name="x", params=[], pre=[], call="", backend="F")), capture_output=True, text=True)
    for l in p.stdout.splitlines():
        if l.startswith("N "):
            return int(l[2:])
    raise RuntimeError(p.stderr[-400:])


def obligations(tier, ctx):
    obs = []
    N = n_methods(ctx)

    def idvariants(base_params, base_pre, callfmt, name, psel_pre, hsel_pre, timeout=300, fam="", kinds=("none", "int", "str")):
        for idk in kinds:
            params = list(base_params)
            pre = list(base_pre) + [psel_pre, hsel_pre, "len(leaf) <= 1"]
            if idk == "int":
                params.append(("rid", "int"))
                call = callfmt.format(has="True", rid="rid")
            elif idk == "str":
                params.append(("rid", "str"))
                pre.append("len(rid) <= 2")
                call = callfmt.format(has="True", rid="rid")
            else:
                call = callfmt.format(has="False", rid="None")
            obs.append(Ob(name=f"{name}_id{idk}", params=params, pre=pre, call=call, backend="F", timeout=timeout, family=fam))

    P = [("psel", "int"), ("hsel", "int"), ("leaf", "str")]
    # methods whose outcome does not depend on params/handler behaviour: params in {absent, {}, initialize-shaped}
    for mi in (0, 1, 2, 4, 6, 7, 8, 9):
        quick = tier == "quick"
        idvariants(P, [], "H.dispatch(H.pick_method(%d), {has}, {rid}, psel, leaf, hsel)" % mi, f"m{mi}",
                   "psel in (0, 9)" if quick else "psel in (0, 1, 9)", "hsel == 0" if quick else "hsel in (0, 6)",
                   fam="core / list / custom / unregistered methods", kinds=("none", "int") if (quick and mi not in (1, 7)) else ("none", "int", "str"))
    # tools/call: every params shape x every handler behaviour
    idvariants(P, [], "H.dispatch('tools/call', {has}, {rid}, psel, leaf, hsel)", "toolscall", "psel in (0, 1, 2, 3, 4, 6, 8)", "0 <= hsel <= 6", fam="tools/call")
    idvariants(P, [], "H.dispatch('resources/read', {has}, {rid}, psel, leaf, hsel)", "resread", "psel in (0, 1, 4, 5, 7)", "hsel in (0, 3, 5, 6)", fam="resources/read")
    # every standard notification name (discovered from MessageMethod) + one unknown, by symbolic index
    P2 = [("mi", "int"), ("psel", "int"), ("hsel", "int"), ("leaf", "str")]
    idvariants(P2, [f"10 <= mi < {N}"], "H.dispatch(H.pick_method(mi), {has}, {rid}, psel, leaf, hsel)", "notifnames", "psel in (0, 1, 2)", "hsel == 0", fam="standard notification names")
    # arbitrary method strings
    for idk in ("none", "int"):
        params = [("method", "str"), ("psel", "int")] + ([("rid", "int")] if idk == "int" else [])
        call = "H.dispatch(method, %s, %s, psel, 'x', 0)" % ("True" if idk == "int" else "False", "rid" if idk == "int" else "None")
        obs.append(Ob(name=f"anymethod_id{idk}", params=params, pre=["1 <= len(method) <= 3", "0 <= psel <= 2"], call=call, backend="F", timeout=300, family="arbitrary method strings"))
    # messages handed over as the typed classes (JSONRPCRequest / JSONRPCNotification) instead of the unified one
    for has in (True, False):
        obs.append(Ob(name=f"typed_{'id' if has else 'noid'}", params=[("mi", "int"), ("rid", "int"), ("psel", "int"), ("hsel", "int")],
                      pre=[(f"0 <= mi < {N}" if tier != "quick" else "mi in (1, 3, 5, 7, 9, 11)"), "psel in (0, 7, 8)", "hsel in (0, 6, 7)"],
                      call=f"H.dispatch_typed(H.pick_method(mi), {has}, rid if {has} else None, psel, 'x', hsel, 0)", backend="F", timeout=400,
                      family="typed request / notification objects"))
    # a session id is presented with the message: none / live / unknown / long idle (age in seconds symbolic, unbounded)
    for has in (True, False):
        obs.append(Ob(name=f"session_{'id' if has else 'noid'}", params=[("mi", "int"), ("rid", "int"), ("sm", "int"), ("age", "int")],
                      pre=["mi in (1, 2, 3, 8, 12)", "0 <= sm <= 3", "0 <= age"],
                      call=f"H.dispatch_session(mi, {has}, rid if {has} else None, sm, age, 0)", backend="F", timeout=300, family="dispatch with a session id (live, unknown, long idle)"))
    # failing handlers: exception text from a corpus (empty, multi-line, control characters, long) by symbolic index
    for meth, psel in (("custom/raise", 0), ("notifications/custom_fail", 0), ("tools/call", 8), ("resources/read", 7)):
        for has in (True, False):
            obs.append(Ob(name=f"exc_{meth.replace('/', '_')}_{'id' if has else 'noid'}", params=[("rid", "int"), ("tsel", "int"), ("hsel", "int")], pre=["0 <= tsel <= 5", "6 <= hsel <= 12"] + (["hsel == 6 or tsel <= 1"] if tier == "quick" else []),
                          call=f"H.dispatch_exc({meth!r}, {has}, rid if {has} else None, {psel}, hsel, tsel)", backend="F", timeout=200, family="handler raises (exception class x text corpus)"))
    # count / size dimension (P backend: concrete messages, the case split is on the size)
    from symcheck import consts
    ENV_SIZES = (4096, 8192, 65536, 131072)
    lim = 110 if tier == "quick" else 410
    nc = len(consts.size_cases(lim))
    for has in (True, False):
        obs.append(Ob(name=f"nth_{'id' if has else 'noid'}", params=[("k", "int"), ("mi", "int"), ("hsel", "int")],
                      pre=[f"0 <= k < {nc}", ("mi in (1, 3, 7)" if tier == "quick" else "mi in (0, 1, 3, 5, 7, 8, 9)"), "hsel in (0, 6)"],
                      call=f"H.dispatch_nth(mi, {has}, k, hsel, {lim})", backend="P", timeout=900, family="count: the (n+1)-th message on one server, n = c-1, c, c+1 (c: integer constants of the source)"))
    nsz = len(consts.size_cases(70000, extra=ENV_SIZES))
    for where in range(5):
        for pat in (((0,) if where < 3 else (6, 7, 8)) if tier == "quick" else (0, 2, 4, 6, 7, 8)):
            obs.append(Ob(name=f"long_w{where}_p{pat}", params=[("k", "int"), ("mi", "int"), ("hsel", "int")],
                          pre=[f"0 <= k < {nsz}", ("mi in (1, 3)" if where in (0, 4) else "mi in (0, 1)" if where == 2 else "mi == 3"), ("hsel in (0, 6)" if where != 4 else "hsel in (6, 7)")],
                          call=f"H.dispatch_long(mi, k, {pat}, {where}, hsel)", backend="P", timeout=900,
                          family="size: id / tool argument / tool name or uri / method name / exception text of c-1, c, c+1 characters"))
    from harness_sizes_n import N_TEXTS
    for where in range(6):
        for be in (("P",) if tier == "quick" else ("P", "F")):
            obs.append(Ob(name=f"text_w{where}_{be}", params=[("i", "int"), ("mi", "int"), ("hsel", "int"), ("has", "bool")],
                          pre=[f"0 <= i < {N_TEXTS}", ("mi in (1, 3)" if where in (0, 4, 5) else "mi in (0, 1)" if where == 2 else "mi == 3"), ("hsel in (0, 6)" if where != 4 else "hsel in (6, 7)")] + (["has"] if where == 0 else []),
                          call=f"H.dispatch_text(mi, i, {where}, hsel, has)", backend=be, timeout=600,
                          family="content corpus: id / tool argument / tool name or uri / method name / exception text that is 'active' text (templates, separators, control and zero-width characters, JSON-looking)"))
    for has in (True, False):
        for be in (("P",) if tier == "quick" else ("F", "P")):
            obs.append(Ob(name=f"after_{'id' if has else 'noid'}_{be}", params=[("mi", "int"), ("ev", "int"), ("hsel", "int"), ("psel", "int")] + ([("rid", "int")] if be == "F" and has else []),
                          pre=[(f"0 <= mi < {N}" if (tier != "quick" and be == "P") else "mi in (1, 3, 5, 7, 8, 9, 12)"), "0 <= ev <= 7", ("hsel in (0, 6)" if be == "P" else "hsel == 0"), ("psel in (0, 6, 7)" if be == "P" else "psel in (0, 6)")],
                          call=f"H.dispatch_after(mi, {has}, {('rid' if be == 'F' else '7') if has else 'None'}, ev, hsel, psel)", backend=be, timeout=900 if be == "P" else 1800,
                          family="after an earlier message on the same server (same method in the other form, failing handlers, unregistered methods, reused id, malformed call, initialize)"))
    return obs
