import itertools
from symcheck.runner import Ob

ID = "C05"
HARNESS = "h_C05"
ASSUMPTIONS = [
    "the child's output is valid UTF-8 (precondition); lines are terminated by LF or CRLF",
    "reference framing: split on LF, drop the unterminated tail, strip surrounding whitespace, skip empty lines",
    "obligations (a)/(b) replace the JSON decoder by a recorder (the subject is framing); (c) uses the real decoder and parser on a concrete corpus with 2/3/4-byte characters, escaped newlines, U+0085, U+2028/2029 - only the cut positions are symbolic there",
    "if the tree uses codecs.getincrementaldecoder it is replaced by a 15-line stub with the documented contract, validated at check time against CPython's decoder on all byte strings <= 3 bytes over a 12-byte alphabet",
]
STUBS = ["FakeProcess/FakeStdout", "IncDecoder stub", "JSON recorder"]
OUTSIDE = ["consumer schedules other than: the consumer runs exactly when the reader waits (full read stream, next chunk)", "byte streams longer than 4 bytes (quick) / 5 (thorough) in the fully symbolic families", "more than 3 chunks", "invalid UTF-8 from the child"]

KINDS = ["resp", "notif", "req", "junk", "notmsg", "empty"]


def obligations(tier, ctx):
    obs = []
    LB = 3 if tier == "quick" else 5
    def split(name, L, ncuts, params0, call, fam):
        """long inputs: cut positions concrete per obligation (shares the paths between workers), content symbolic"""
        if L <= 3:
            cuts = ["i", "j"][:ncuts]
            obs.append(Ob(name=f"{name}_L{L}", params=params0 + [(c, "int") for c in cuts],
                          pre=[f"len({params0[0][0]}) == {L}", ("0 <= i <= j <= %d" % L) if ncuts == 2 else ("0 <= i <= %d" % L)] + (["H.valid_utf8(b)"] if params0[0][1] == "bytes" else []),
                          call=call.format(i="i", j="j"), backend="P", timeout=400, family=fam))
            return
        import itertools
        positions = [(i,) for i in range(L + 1)] if ncuts == 1 else [(i, j) for i in range(L + 1) for j in range(i, L + 1)]
        for pos in positions:
            i, j = pos[0], (pos[1] if ncuts == 2 else None)
            obs.append(Ob(name=f"{name}_L{L}_c{'_'.join(map(str, pos))}", params=params0,
                          pre=[f"len({params0[0][0]}) == {L}"] + (["H.valid_utf8(b)"] if params0[0][1] == "bytes" else []),
                          call=call.format(i=i, j=j), backend="P", timeout=600, family=fam))

    for L in range(1, LB + 1):
        split("bytes", L, 1, [("b", "bytes")], "H.bytes_cut(b, {i})", "(a) bytes, one cut")
    for L in range(2, (2 if tier == "quick" else 4) + 1):
        split("bytes2", L, 2, [("b", "bytes")], "H.bytes_cut2(b, {i}, {j})", "(a) bytes, two cuts")
    for L in range(1, (2 if tier == "quick" else 4) + 1):
        split("text", L, 2, [("s", "str")], "H.text_cut(s, {i}, {j})", "(b) text, two cuts")
    tuples = [("resp",), ("notif",), ("junk", "resp"), ("notmsg", "req"), ("big",), ("trail",), ("double",)] + ([("trail_nospace",)] if tier != "quick" else []) + ([("notif", "resp"), ("resp", "notmsg", "notif"), ("empty", "req", "junk")] if tier != "quick" else [])
    if tier != "quick":
        tuples += [t for t in itertools.product(KINDS, repeat=2) if t not in tuples][:20] + [("junk", "junk", "resp"), ("notif", "notif", "notif"), ("array_junk", "resp")]
    for kt in tuples:
        for crlf in (False, True):
            if tier == "quick" and crlf and len(kt) > 2:
                continue
            for d in ((0, 1) if tier == "quick" else (0, 1, 2, 3)):
                if tier == "quick" and ((d and (crlf or kt != ("resp",))) or (crlf and kt != ("junk", "resp"))):
                    continue
                obs.append(Ob(name="routing_" + "_".join(kt) + ("_crlf" if crlf else "") + f"_d{d}", params=[("i", "int")],
                              pre=["0 <= i", f"i + {d} <= H.data_len({kt!r}, {crlf})"],
                              call=f"H.routing({kt!r}, {crlf}, i, {d})", backend="P", timeout=400,
                              family="(c) isolation and routing: every cut position (middle chunk of d bytes), real decoder and parser"))
    for kt in [("notif", "resp"), ("notif", "notif", "req")]:
        obs.append(Ob(name="notify_refused_" + "_".join(kt), params=[("mode", "int")], pre=["0 <= mode <= 2"], call=f"H.routing_notify_refused({kt!r}, mode)",
                      backend="P", timeout=120, family="(c) notification stream full / closed: the read stream still gets every message"))
    for kt in [("resp", "req"), ("notif", "resp", "resp")]:
        obs.append(Ob(name="legacy_pending_" + "_".join(kt), params=[("mode", "int")], pre=["0 <= mode <= 1"], call=f"H.routing_legacy_pending({kt!r}, mode, False)",
                      backend="P", timeout=120, family="(c) a legacy per-request stream is pending for the id: the read stream still gets every message"))
    # (d) back-pressure and counts
    for kt in [("notif", "notif", "resp"), ("resp", "notif", "req", "notif")] if tier == "quick" else [("notif", "notif", "resp"), ("resp", "notif", "req", "notif"), ("notif",) * 4, ("resp",) * 3, ("junk", "notif", "notmsg", "notif", "resp")]:
        obs.append(Ob(name="bounded_" + "_".join(kt), params=[("cap", "int"), ("i", "int")], pre=["1 <= cap <= 4", "0 <= i", f"i <= H.data_len({kt!r}, False)", ("i % 7 == 0" if tier == "quick" else "i % 3 == 0")],
                      call=f"H.routing_bounded({kt!r}, cap, i)", real=f"H.routing_bounded_real({kt!r}, cap, i)", backend="P", timeout=400 if tier == "quick" else 1200, family="(d) back-pressure: read stream of symbolic capacity 1..4, consumer slower than the reader"))
    from symcheck import consts
    lim = 110 if tier == "quick" else 410
    nc = len(consts.size_cases(lim))
    for kind in (0, 2) if tier == "quick" else (0, 1, 2):
        for cap, nch in ((100, 1), (1, 1)) if tier == "quick" else ((100, 1), (1, 1), (100, 3), (7, 2), (100000, 1)):
            obs.append(Ob(name=f"many_lines_k{kind}_cap{cap}_ch{nch}", params=[("k", "int")], pre=[f"0 <= k < {nc}"], call=f"H.many_lines(k, {kind}, {cap}, {nch}, {lim})",
                          real=f"H.many_lines_real(k, {kind}, {cap}, {nch}, {lim})", backend="P", timeout=900,
                          family="(d) count: c-1, c, c+1 lines in one read (c: integer constants of the source), bounded read stream"))
    ENV_SIZES = (4096, 8192, 65536, 131072)
    llim = 70000 if tier == "quick" else 140000
    nsz = len(consts.size_cases(llim, extra=ENV_SIZES))
    for pat, cut, crlf in (((0, 0, False), (5, 2, True), (6, 3, False), (7, 1, False), (8, 2, False)) if tier == "quick" else ((0, 0, False), (0, 1, False), (0, 2, True), (0, 3, False), (0, 4, False), (5, 0, True), (5, 2, False), (4, 2, False), (1, 1, True), (6, 0, False), (7, 0, False), (8, 0, True), (6, 3, False), (7, 1, False), (8, 2, False))):
        obs.append(Ob(name=f"long_line_p{pat}_c{cut}{'_crlf' if crlf else ''}", params=[("k", "int")], pre=[f"0 <= k < {nsz}"], call=f"H.long_line(k, {pat}, {cut}, {crlf}, {llim})", backend="P", timeout=900,
                      family="(d) size: a line of c-1, c, c+1 characters (c: integer constants of the source and environment sizes), five ways of cutting it"))
    from harness_sizes_n import N_TEXTS
    for cut, crlf in (((1, False), (2, True)) if tier == "quick" else ((0, False), (1, False), (2, False), (1, True), (2, True))):
        obs.append(Ob(name=f"text_line_c{cut}{'_crlf' if crlf else ''}", params=[("i", "int")], pre=[f"0 <= i < {N_TEXTS}"], call=f"H.text_line(i, {cut}, {crlf})", backend="P", timeout=600,
                      family="(c) content corpus: a line whose JSON strings carry 'active' text raw (separators that str.splitlines honours, BOM, templates, JSON-looking text)"))
    from symcheck.runner import mirror
    obs += mirror(obs, r"^(routing_notmsg_req_d0|routing_trail_d0|notify_refused_notif_resp|legacy_pending_resp_req)$", "F", limit=(2 if tier == "quick" else None))
    return obs


def extra(tier, ctx):
    import subprocess, json
    from symcheck import runner
    code = "import sys; sys.path.insert(0, %r); import harness.h_C05 as H; print('DEC', H.validate_decoder())" % ctx["root"]
    p = subprocess.run([runner.PY, "-c", code], env=runner.base_env(runner.Ob(name="x", params=[], pre=[], call="")), capture_output=True, text=True)
    for l in p.stdout.splitlines():
        if l.startswith("DEC "):
            v = l[4:]
            if v.isdigit():
                return {"validated": int(v), "decoder_stub_vs_cpython_cases": int(v)}
            return {"harness_errors": [v]}
    return {"error": "decoder validation crashed: " + p.stderr[-400:]}
