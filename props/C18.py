import itertools
from symcheck.runner import Ob

ID = "C18"
HARNESS = "h_C18"
ASSUMPTIONS = [
    "callers are tasks on one event loop; MiniSched reproduces anyio's memory-stream hand-over rule (longest-waiting receiver first, else buffer) - validated on every run against real anyio on a virtual-time loop (outcomes, completion ticks and the full hand-over trace must be identical)",
    "caller j starts j/64 tick after the tick 0; virtual time as in C01",
    "'a response the server sent within its deadline' = arrival tick < caller's timeout",
]
STUBS = ["MiniSched", "VClock/fake_fail_after", "format stub"]
OUTSIDE = ["integer ids are mathematical integers to the engine: a comparison through float() is exact there, so double-rounding is covered only by the listed near-equal pairs", "more than 3 callers symbolically (4 only in the stub-vs-real differential)", "real OS-thread concurrency", "gaps above 120 ticks"]
FINDING = "C18-lost-response"


def obligations(tier, ctx):
    obs = []
    ns = [2] if tier == "quick" else [2, 3]
    for n in ns:
        perms = list(itertools.permutations(range(n)))
        for order in perms:
            for npos in ([-1] + list(range(n + 1))):
                if tier == "quick" and npos not in (-1, 0, 1):
                    continue
                if n == 3 and npos not in (-1, 1):
                    continue
                m = n + (1 if npos >= 0 else 0)
                gl = "[" + ", ".join(f"g{i}" for i in range(m)) + "]"
                params = [(f"g{i}", "int") for i in range(m)] + [("T", "int")]
                pre = [f"0 <= g{i} <= 120" for i in range(m)] + ["1 <= T <= 150"]
                tag = "".join(map(str, order)) + ("_n%d" % npos if npos >= 0 else "")
                to = 240 if n == 2 else 600
                obs.append(Ob(name=f"crosstalk_{tag}", params=params, pre=pre, call=f"H.crosstalk({order!r}, {npos}, {gl}, T)",
                              real=f"H.crosstalk_real({order!r}, {npos}, {gl}, T)", backend="P", timeout=to, family="no-cross-talk"))
                obs.append(Ob(name=f"lost_{tag}", params=params, pre=pre, call=f"H.lost_unless_misdirected({order!r}, {npos}, {gl}, T)",
                              real=f"H.lost_unless_misdirected_real({order!r}, {npos}, {gl}, T)", backend="P", timeout=to,
                              family="no-lost-response (outside the known-finding region: no response handed to a waiter that is not its addressee)"))
    # ids that differ only in JSON type (symbolic str vs symbolic int), pure-python backend, concrete schedule
    for order, npos in [((1, 0), -1), ((0, 1), 0), ((0, 1), -1)]:
        for t0, t1 in (("str", "int"), ("int", "str")):
            # an integer id of 0 is falsy and replaced by a generated id (message_id is documented as Optional[str]): excluded
            pre = [("1 <= len(id0) <= 2" if t0 == "str" else "id0 != 0"), ("1 <= len(id1) <= 2" if t1 == "str" else "id1 != 0")]
            obs.append(Ob(name=f"ids_{''.join(map(str, order))}_n{npos if npos >= 0 else 'x'}_{t0}{t1}", params=[("id0", t0), ("id1", t1)], pre=pre,
                          call=f"H.crosstalk_ids({order!r}, {npos}, id0, id1)", backend="F", timeout=240, family="no-cross-talk / ids equal as text, different JSON type"))
    # two integer ids (symbolic, unbounded) and a corpus of near-equal id pairs (doubles, 64-bit wrap, long strings, Unicode forms)
    for order, npos in [((1, 0), -1), ((0, 1), 0)]:
        tag = f"{''.join(map(str, order))}_n{npos if npos >= 0 else 'x'}"
        obs.append(Ob(name=f"ids_{tag}_intint", params=[("id0", "int"), ("id1", "int")], pre=["id0 != 0", "id1 != 0", "id0 != id1"],
                      call=f"H.crosstalk_ids({order!r}, {npos}, id0, id1)", backend="F", timeout=240, family="no-cross-talk / two integer ids"))
        for be in ("F", "P"):
            obs.append(Ob(name=f"ids_{tag}_near_{be}", params=[("i", "int"), ("swap", "bool")], pre=["0 <= i <= 11"],
                          call=f"H.crosstalk_near({order!r}, {npos}, i, swap)", backend=be, timeout=240, family="no-cross-talk / near-equal id pairs (corpus)"))
    obs.append(Ob(name="stdio_pending_two_callers", params=[("mode", "int"), ("swap", "bool")], pre=["0 <= mode <= 1"], call="H.pending_two_callers(mode, swap)", backend="P", timeout=120,
                  family="stdio routing: two outstanding requests with registered per-request streams, one of them abandoned"))
    # the known finding is re-demonstrated on the smallest instance; if the tree is repaired this confirms and no line is printed
    for order, npos in [((1, 0), -1)] + ([((0, 1), 0)] if tier != "quick" else []):
        m = len(order) + (1 if npos >= 0 else 0)
        gl = "[" + ", ".join(f"g{i}" for i in range(m)) + "]"
        obs.append(Ob(name="kf_lost_" + "".join(map(str, order)) + ("_n%d" % npos if npos >= 0 else ""),
                      params=[(f"g{i}", "int") for i in range(m)] + [("T", "int")],
                      pre=[f"0 <= g{i} <= 120" for i in range(m)] + ["1 <= T <= 150"], call=f"H.lost_any({order!r}, {npos}, {gl}, T)",
                      real=f"H.lost_any_real({order!r}, {npos}, {gl}, T)", backend="P", timeout=240, family="known finding region", finding=FINDING))
    return obs


def extra(tier, ctx):
    from symcheck import runner
    return runner.envdiff("harness.h_C18", 200 if tier == "quick" else 1500, ctx["seed"])
