from symcheck.runner import Ob

ID = "C16"
HARNESS = "h_C16"
ASSUMPTIONS = [
    "ONLY the shutdown control logic is decided: StdioClient.__aexit__/_shutdown/_terminate_process against a scripted process (already exited / exits on terminate / only on kill / never; terminate raising ProcessLookupError) and a scripted task group (clean exit, exception group of cancellations, of a real error, cancel-scope RuntimeError, JSON TypeError), with or without the surrounding scope being cancelled",
    "outer cancellation = every unshielded await raises asyncio.CancelledError; anyio.CancelScope(shield=True) is modelled as suppressing that",
    "fail_after is the virtual-clock stub (1 s = 128 ticks)",
    "the statement about the kernel (no child running or unreaped, no leaked file descriptor, whatever a real child does) is NOT decided by the solver; a native run with real children (well-behaved / SIGTERM-ignoring x normal / exception / cancellation exit) is executed as environment validation and reported separately",
]
STUBS = ["scripted Proc", "scripted task group", "FakeShield", "VClock/fake_fail_after"]
OUTSIDE = ["process table, signals, pipes and file descriptors (kernel)", "children that misbehave on their pipes (flooding, closing stdout)", "real task scheduling during shutdown"]


def obligations(tier, ctx):
    obs = []
    for tg_mode in range(5):
        for outer in (0, 1):
            obs.append(Ob(name=f"shutdown_tg{tg_mode}_{'cancelled' if outer else 'plain'}",
                          params=[("exited", "bool"), ("on_term", "bool"), ("on_kill", "bool"), ("term_raises", "bool")], pre=[],
                          call=f"H.shutdown(exited, on_term, on_kill, term_raises, {tg_mode}, {outer}, True)", backend="P", timeout=120,
                          family="shutdown control logic"))
    for tg_mode in (0, 1):
        obs.append(Ob(name=f"shutdown_after_stdout_eof_tg{tg_mode}", params=[("exited", "bool"), ("on_term", "bool"), ("on_kill", "bool"), ("outer", "bool")], pre=[],
                      call=f"H.shutdown(exited, on_term, on_kill, False, {tg_mode}, outer, True, False, True)", backend="P", timeout=120,
                      family="shutdown control logic after the reader saw end-of-stream"))
    obs.append(Ob(name="shutdown_kill_raises", params=[("on_term", "bool"), ("outer", "bool"), ("tg", "int")], pre=["0 <= tg <= 4"],
                  call="H.shutdown(False, on_term, False, False, tg, outer, True, True)", backend="P", timeout=120, family="shutdown control logic"))
    obs.append(Ob(name="shutdown_no_taskgroup", params=[("exited", "bool"), ("on_term", "bool"), ("on_kill", "bool"), ("term_raises", "bool"), ("outer", "bool")], pre=[],
                  call="H.shutdown(exited, on_term, on_kill, term_raises, 0, outer, False)", backend="P", timeout=120, family="shutdown control logic"))
    for body in range(4):
        for tgm in ((0, 1) if tier == "quick" else (0, 1, 2, 3, 4)):
            obs.append(Ob(name=f"wrapper_body{body}_tg{tgm}", params=[("on_term", "bool"), ("on_kill", "bool"), ("outer", "bool")], pre=[],
                          call=f"H.wrapper(0, {body}, on_term, on_kill, {tgm}, outer)", backend="P", timeout=120,
                          family="stdio_client context manager: body leaves normally / by exception / by cancellation"))
    from symcheck import consts
    ENV_SIZES = (4096, 8192, 65536, 131072)
    lim = 70000 if tier == "quick" else 140000
    nsz = len(consts.size_cases(lim, extra=ENV_SIZES))
    for kind in ((0, 2) if tier == "quick" else (0, 1, 2, 3, 8, 9)):
        for pat in ((0,) if tier == "quick" else (0, 4)):
            obs.append(Ob(name=f"blocked_writer_{kind}_p{pat}", params=[("k", "int")], pre=[f"0 <= k < {nsz}"], call=f"H.blocked_writer({kind}, k, {pat}, {lim})", backend="P", timeout=600,
                          family="a task waiting for the child's pipe stays cancellable (message of c-1, c, c+1 characters; c: integer constants of the source, PIPE_BUF, pipe and buffer sizes)"))
    obs.append(Ob(name="blocked_reader", params=[("x", "int")], pre=["x == 0"], call="H.blocked_reader(x)", backend="P", timeout=60,
                  family="a task waiting for the child's pipe stays cancellable (message of c-1, c, c+1 characters; c: integer constants of the source, PIPE_BUF, pipe and buffer sizes)"))
    obs.append(Ob(name="cannot_start", params=[("w", "int")], pre=["0 <= w <= 2"], call="H.cannot_start(w)", backend="P", timeout=60, family="entering"))
    obs.append(Ob(name="empty_command", params=[("x", "int")], pre=["x == 0"], call="H.empty_command()", backend="P", timeout=30, family="entering"))
    return obs


def extra(tier, ctx):
    """environment validation with REAL children (native, not solver): every exit path terminates and reaps the child in bounded time"""
    import subprocess, json
    from symcheck import runner
    p = subprocess.run([runner.PY, "-m", "harness.real_children"], env=runner.base_env(runner.Ob(name="x", params=[], pre=[], call="")),
                       capture_output=True, text=True, cwd=ctx["root"], timeout=300)
    for l in p.stdout.splitlines():
        if l.startswith("REALCHILD "):
            d = json.loads(l[10:])
            res = {"validated": d["runs"], "real_child_runs": d["details"]}
            if d["violations"]:
                res["violations"] = [{"reason": v["reason"], "witness": v["case"]} for v in d["violations"]]
            return res
    return {"error": "real child validation crashed: " + (p.stderr or p.stdout)[-500:]}


def replay_extra(rec):
    return rec.get("reason", "not-ok")
