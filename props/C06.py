import itertools
from symcheck.runner import Ob

ID = "C06"
HARNESS = "h_C06"
ASSUMPTIONS = [
    "the outgoing stream is an async iterator of the scripted items; the child's stdin is a recorder",
    "typed messages and dicts carry payload strings chosen by symbolic index from a corpus (line feed, CR/CRLF, U+2028/2029/0085, NUL, quotes/backslash, astral, empty) because they cross orjson / pydantic-core; only the pre-serialised string is fully symbolic",
    "a pre-serialised string with raw line breaks may be re-encoded onto one line or dropped; a carriage return that stays inside a line is tolerated, a line feed is not",
]
STUBS = ["FakeProcess/FakeStdin", "async-iterator outgoing stream"]
OUTSIDE = ["content fidelity beyond the corpus (compiled codecs)", "sequences longer than 2 (quick) / 3 (thorough) items", "payloads longer than the corpus entries except for the size family (lengths from source constants and environment sizes <= 70000 / 140000, fill patterns concrete)", "pre-serialised strings longer than 3 characters in the symbolic family"]

ALL = list(range(15))


def obligations(tier, ctx):
    obs = []
    n_max = 2 if tier == "quick" else 3
    for n in range(1, n_max + 1):
        if n == 1:
            tuples = [(k,) for k in ALL]
        elif n == 2:
            tuples = list(itertools.product(ALL, repeat=2)) if tier != "quick" else [(a, b) for a in (0, 3, 4, 5, 7) for b in (1, 2, 6, 8)] + [(5, 5), (4, 4), (9, 0), (12, 10), (11, 12), (5, 12), (13, 14), (14, 0)]
        else:
            tuples = [(a, b, c) for a in (0, 4, 5) for b in (5, 7, 2) for c in (1, 4, 6)]
        for kt in tuples:
            ss = [f"s{i}" for i in range(n)]
            obs.append(Ob(name="writer_" + "_".join(map(str, kt)), params=[(s, "int") for s in ss], pre=[(f"0 <= {s} <= 7" if kt[i] not in (5, 6, 7, 13, 14) else f"{s} == 0") for i, s in enumerate(ss)],
                          call=f"H.writer({kt!r}, [{', '.join(ss)}])", backend="P", timeout=300, family="item sequences, payload by corpus index"))
    # pre-serialised string: every string over an 8-character alphabet (LF, CR, digit, brackets, space, quote, non-ASCII)
    # up to length 2 (quick) / 3 (thorough).  Unrestricted characters make the engine enumerate code points one by one
    # once the tree encodes the string (str.encode realises), so the alphabet is the stated bound.
    L = 2 if tier == "quick" else 3
    alpha = "\\n\\r1[] \"\u00e9"
    for before, after in ((False, False), (True, True)):
        for ln in range(0, L + 1):
            obs.append(Ob(name=f"raw_L{ln}_{'mid' if before else 'solo'}", params=[("raw", "str")],
                          pre=[f"len(raw) == {ln}", f"all(c in '{alpha}' for c in raw)"],
                          call=f"H.raw_symbolic(raw, {before}, {after})", backend="P", timeout=400, family="pre-serialised string over an 8-character alphabet"))
    obs.append(Ob(name="stdin_failure", params=[("x", "int")], pre=["x == 0"], call="H.stdin_failure((0, 2, 3))", backend="P", timeout=60, family="broken pipe"))
    # size dimension: payload lengths straddling the integer constants of the source tree and environment sizes
    from symcheck import consts
    ENV_SIZES = (4096, 8192, 65536, 131072)
    lim = 70000 if tier == "quick" else 140000
    nsz = len(consts.size_cases(lim, extra=ENV_SIZES))
    for kind in ((0, 3) if tier == "quick" else (0, 1, 2, 3, 8, 9)):
        for pat in ((4, 6, 7, 8) if tier == "quick" else (0, 1, 2, 4, 5, 6, 7, 8)):
            obs.append(Ob(name=f"writer_long_{kind}_p{pat}", params=[("k", "int")], pre=[f"0 <= k < {nsz}"], call=f"H.writer_long({kind}, k, {pat}, {lim})", backend="P", timeout=600,
                          family="size: payload of c-1, c, c+1 characters for the integer constants c of the source and environment sizes (4096, 8192, 65536, 131072)"))
    from harness_sizes_n import N_TEXTS
    for kind in ((0, 2, 3) if tier == "quick" else (0, 1, 2, 3, 8, 9)):
        obs.append(Ob(name=f"writer_text_{kind}", params=[("i", "int")], pre=[f"0 <= i < {N_TEXTS}"], call=f"H.writer_text({kind}, i)", backend="P", timeout=600,
                      family="content corpus: payload that is 'active' text (separators, BOM, templates, JSON-looking text)"))
    for form in range(5):
        obs.append(Ob(name=f"writer_raw_text_f{form}", params=[("i", "int")], pre=[f"0 <= i < {N_TEXTS}"], call=f"H.writer_raw_text(i, {form})", backend="P", timeout=600,
                      family="content corpus: pre-serialised strings (compact, trailing LF / CRLF, surrounding white space, pretty-printed)"))
    from symcheck.runner import mirror
    obs += mirror(obs, r"^writer_(0|1|9|10|12|14|0_1|9_0|12_10)$", "F", limit=(4 if tier == "quick" else None))
    return obs
