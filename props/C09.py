from symcheck.runner import Ob

ID = "C09"
HARNESS = "h_models"
ASSUMPTIONS = [
    "the solver decides the pure-Python (fallback) backend against the reference 'wire object + declared defaults, ids keep their JSON type, discriminated content typed by its literal tag'; pydantic-core is compiled code and cannot be encoded",
    "pydantic_side: witnesses only - every (model, shape) is run with 5 concrete leaf tuples under BOTH real backends in two subprocesses and the outcomes (accept/reject, class at every nested position, dump) are compared; a disagreement is a replayed two-backend counterexample, agreement is not a for-all statement about Pydantic",
    "shapes are type-directed and concrete (which optional members, which union variant, list lengths 0/1/2, one unknown member); leaves are symbolic: two strings (len<=1 quick / <=2 thorough), one unbounded integer, one boolean; floats are the constant 0.5",
]
STUBS = []
OUTSIDE = ["Pydantic side beyond the witness tuples", "string leaves longer than 2", "symbolic dict keys, symbolic list lengths", "float leaves"]
FINDING_ROOT = "C09-root-invariant-pydantic"


def model_table(ctx, tier):
    import subprocess, json
    from symcheck import runner
    code = ("import sys, json; sys.path.insert(0, %r); import harness.h_models as H; "
            "print('TABLE ' + json.dumps([[k, H.variants_for(c, %r), H.union_choices(c)] for k, c in H.MODELS.items()]))") % (ctx["root"], tier)
    p = subprocess.run([runner.PY, "-c", code], env=runner.base_env(runner.Ob(name="x", params=[], pre=[], call="", backend="F")), capture_output=True, text=True)
    for l in p.stdout.splitlines():
        if l.startswith("TABLE "):
            return json.loads(l[6:])
    raise RuntimeError("model discovery failed: " + p.stderr[-600:])


def lossless_obligations(tier, ctx, keep=None):
    obs = []
    L = 1 if tier == "quick" else 2
    for key, variants, nchoice in model_table(ctx, tier):
        if keep is not None and not keep(key):
            continue
        short = key.split(".")[-2][:10] + "_" + key.split(".")[-1]
        for v in variants:
            if tier == "quick" and v not in ("req", "full"):
                continue
            for ch in range(nchoice if v == "full" else 1):
                obs.append(Ob(name=f"{short}_{v.replace(':', '-')}_{ch}", params=[("s0", "str"), ("s1", "str"), ("i0", "int"), ("b0", "bool")],
                              pre=[f"len(s0) <= {L}", f"len(s1) <= {L}"], call=f"H.lossless({key!r}, {v!r}, {ch}, s0, s1, i0, b0)",
                              backend="F", timeout=300, family="model x shape: validate, dump with wire names == wire + declared defaults"))
    return obs


def obligations(tier, ctx):
    obs = lossless_obligations(tier, ctx)
    for key, variants, nchoice in model_table(ctx, tier):
        if nchoice > 1:
            short = key.split(".")[-2][:10] + "_" + key.split(".")[-1]
            for ch in range(nchoice):
                # the choice indexes Python lists inside the shape builder: concrete per obligation (rule R10)
                obs.append(Ob(name=f"variant_{short}_{ch}", params=[("x", "int")], pre=["x == 0"], call=f"H.variant_typing({key!r}, {ch})",
                              backend="F", timeout=200, family="discriminated content keeps its variant"))
    for kind in range(4):
        for idt in (("int", "str") if kind != 1 else ("int",)):
            obs.append(Ob(name=f"envelope_{kind}_{idt}", params=[("rid", idt), ("leaf", "str")], pre=([f"len(rid) <= 3"] if idt == "str" else []) + ["len(leaf) <= 2"],
                          call=f"H.envelope({kind}, rid, leaf)", backend="F", timeout=200, family="JSON-RPC envelopes with every id shape"))
    # size / count dimension, under BOTH backends (each against the same reference, so also against each other)
    import subprocess, json
    from symcheck import runner, consts
    code = "import sys, json; sys.path.insert(0, %r); import harness.h_models as H; print('LISTS ' + json.dumps([k for k in H.MODELS if H.has_list(k)]))" % ctx["root"]
    p = subprocess.run([runner.PY, "-c", code], env=runner.base_env(runner.Ob(name="x", params=[], pre=[], call="", backend="F")), capture_output=True, text=True)
    with_lists = []
    for l in p.stdout.splitlines():
        if l.startswith("LISTS "):
            with_lists = json.loads(l[6:])
    all_keys = [k for k, _v, _n in model_table(ctx, tier)]
    ENVS = (4096, 8192, 65536, 131072)
    pick_q = ("ListToolsResult", "CallToolResult", "ReadResourceResult", "CompletionResult")
    for key in with_lists:
        if tier == "quick" and key.split(".")[-1] not in pick_q:
            continue
        short = key.split(".")[-2][:10] + "_" + key.split(".")[-1]
        # (thorough: the pure-Python side only for the models of the quick pick - 2-3 s per list item under tracing)
        for be in (("P",) if ((tier == "quick" and key.split(".")[-1] != "CompletionResult") or (tier != "quick" and key.split(".")[-1] not in pick_q)) else ("P", "F")):
            # the pure-Python backend under the engine's tracing costs 2-3 s per list item (it re-reads the type hints
            # of every nested model): small counts there, and only one model in the quick tier
            lim = (62 if be == "P" else 32) if tier == "quick" else (410 if be == "P" else 32)
            obs.append(Ob(name=f"biglist_{short}_{be}", params=[("k", "int")], pre=[f"0 <= k < {len(consts.size_cases(lim))}"], call=f"H.lossless_big({key!r}, k, 1, 0, {lim})", backend=be, timeout=1200,
                          family="count: outermost lists of c-1, c, c+1 items (c: integer constants of the source; <= 110/410 under Pydantic, <= 32 under the pure-Python backend), both backends"))
    for key in all_keys:
        if tier == "quick" and key.split(".")[-1] not in ("TextContent", "Tool", "InitializeResult"):
            continue
        short = key.split(".")[-2][:10] + "_" + key.split(".")[-1]
        for be in (("P",) if ((tier == "quick" and key.split(".")[-1] != "TextContent") or (tier != "quick" and key.split(".")[-1] not in ("TextContent", "Tool", "InitializeResult", "CallToolResult", "Resource", "PromptMessage"))) else ("P", "F")):
            slim = consts.MAX_SIZE if be == "P" else 5000
            for pat in ((5,) if tier == "quick" else (5, 15)):
                obs.append(Ob(name=f"bigstr_{short}_{be}_p{pat}", params=[("k", "int")], pre=[f"0 <= k < {len(consts.size_cases(slim, extra=ENVS))}"], call=f"H.lossless_big({key!r}, k, 0, {pat}, {slim})", backend=be, timeout=1200,
                              family="size: string leaves of c-1, c, c+1 characters (c: integer constants of the source and environment sizes; <= 2 MiB under Pydantic, <= 5000 under the pure-Python backend), both backends"))
    obs.append(Ob(name="invariant_root", params=[("uri", "str")], pre=["len(uri) <= 9"], call="H.invariant_root(uri)", backend="F", timeout=200, family="documented invariants (fallback side)"))
    obs.append(Ob(name="invariant_completion", params=[("n", "int")], pre=["n in (0, 1, 100, 101, 150)"], call="H.invariant_completion(n)", backend="F", timeout=200, family="documented invariants (fallback side)"))
    return obs


def extra(tier, ctx):
    """the relational half on concrete witnesses: both REAL backends, two subprocesses"""
    import subprocess, json
    from symcheck import runner
    outs = {}
    for backend in ("P", "F"):
        code = "import sys, json; sys.path.insert(0, %r); import harness.h_models as H; print('WIT ' + json.dumps(H.witness_outcomes(%r), default=repr))" % (ctx["root"], tier)
        p = subprocess.run([runner.PY, "-c", code], env=runner.base_env(runner.Ob(name="x", params=[], pre=[], call="", backend=backend)), capture_output=True, text=True, timeout=900)
        got = None
        for l in p.stdout.splitlines():
            if l.startswith("WIT "):
                got = json.loads(l[4:])
        if got is None:
            return {"error": "witness run crashed under backend %s: %s" % (backend, p.stderr[-500:])}
        outs[backend] = got
    keys = sorted(set(outs["P"]) | set(outs["F"]))
    bad = []
    for k in keys:
        a, b = outs["P"].get(k), outs["F"].get(k)
        if a != b:
            fid = FINDING_ROOT if (k.startswith("invariant|root|") and a == ["accepted"] and b == ["rejected"]) else None
            bad.append({"reason": "backends-disagree:" + k + ": pydantic=" + json.dumps(a)[:200] + " fallback=" + json.dumps(b)[:200], "witness": k, "finding": fid})
    res = {"validated": len(keys), "two_backend_witnesses": len(keys), "disagreements": len(bad)}
    if bad:
        # one violation per model is enough to read
        seen, vio = set(), []
        for b in bad:
            m = b["witness"].split("|")[0] + "|" + (b["witness"].split("|")[1] if b["witness"].startswith("invariant") else "")
            if m in seen:
                continue
            seen.add(m)
            vio.append(b)
        res["violations"] = vio
    return res


def replay_extra(rec):
    return rec.get("reason", "not-ok")
