import itertools
from symcheck.runner import Ob

ID = "C03"
HARNESS = "h_C03"
ASSUMPTIONS = [
    "versions are non-empty strings; the code uses them only through ==, in and truthiness, so symbolic strings of length 1 realise every equality pattern among the versions of an obligation (DESIGN R9)",
    "virtual clock / scripted streams as in C01 (validated there against real anyio)",
    "the tracked client is a real StdioClient (never started); its batch processor is inspected",
]
STUBS = ["VClock/fake_fail_after", "ScriptedReadStream", "RecordingWriteStream", "uuid4 counter", "format stub"]
OUTSIDE = ["supported lists longer than 3", "version strings longer than 1 (quick; also thorough for lists of 3) / 2 (thorough, lists of 1-2) characters in the fully symbolic family - real dates are covered by the selector family"]


def obligations(tier, ctx):
    obs = []
    L = 1 if tier == "quick" else 2
    # fully symbolic versions, fallback backend, concrete schedule (gap 1, T 100)
    for nsup in (1, 2, 3):
        if tier == "quick" and nsup == 3:
            continue
        vs = [f"v{i}" for i in range(nsup)]
        sup = "[" + ", ".join(vs) + "]"
        for has_pref in (0, 1):
            for kind in (0,):
                Ln = L if nsup < 3 else 1  # three supported versions + preferred + answer at length 2 does not finish in 400 s
                params = [(v, "str") for v in vs] + ([("pref", "str")] if has_pref else []) + [("ans", "str")]
                pre = [f"1 <= len({v}) <= {Ln}" for v in vs] + ([f"1 <= len(pref) <= {Ln}"] if has_pref else []) + [f"len(ans) <= {Ln}"]
                obs.append(Ob(name=f"sym_s{nsup}_p{has_pref}_ok", params=params, pre=pre,
                              call=f"H.nego({sup}, {'pref' if has_pref else 'None'}, 0, ans, 0, False, [1], 100)",
                              backend="F", timeout=400, family="symbolic versions / result answer"))
    # the answer may be longer than the versions: substrings and superstrings of an offered version are not that version
    obs.append(Ob(name="sym_s2_longer_answer", params=[("v0", "str"), ("v1", "str"), ("ans", "str")], pre=["len(v0) == 1", "len(v1) == 1", "len(ans) <= 2"],
                  call="H.nego([v0, v1], None, 0, ans, 0, False, [1], 100)", backend="F", timeout=400, family="symbolic versions / result answer"))
    for kind, nm in ((1, "nonstr"), (2, "noserverinfo"), (3, "nocaps"), (5, "errtext"), (6, "silence")):
        obs.append(Ob(name=f"sym_s2_{nm}", params=[("v0", "str"), ("v1", "str"), ("pref", "str"), ("ans", "str")],
                      pre=["len(v0) == 1", "len(v1) == 1", "len(pref) == 1", "len(ans) <= 1"],
                      call=f"H.nego([v0, v1], pref, {kind}, ans, 0, False, [1], 100)", backend="F", timeout=300, family="symbolic versions / malformed or error answer"))
    obs.append(Ob(name="errtext_corpus", params=[("v0", "str"), ("t", "int")], pre=["len(v0) == 1", "0 <= t <= 4"],
                  call="H.nego([v0], None, 5, '', t, False, [1], 100)", backend="F", timeout=300, family="version rejection wordings (-32602, corpus by index)"))
    obs.append(Ob(name="sym_s2_errcode", params=[("v0", "str"), ("v1", "str"), ("code", "int")],
                  pre=["len(v0) == 1", "len(v1) == 1"], call="H.nego([v0, v1], None, 4, '', code, False, [1], 100)",
                  backend="F", timeout=300, family="JSON-RPC error of every code"))
    # real and invented dates (universe of 6) under Pydantic: supported list and preferred version concrete per
    # obligation, the server's answer a symbolic index over the whole universe, schedule symbolic
    lists = [(0, 1, 2), (1,), (2, 1), (0, 3)] + ([(2,), (1, 0), (3, 4, 0), (0, 1)] if tier != "quick" else [])
    for sup in lists:
        prefs = [-1, sup[-1], 5] + ([sup[0], 4] if tier != "quick" else [])
        for pref in dict.fromkeys(prefs):
            for distractor in ((0,) if tier == "quick" else (0, 1)):
                ng = 1 + distractor
                gl = "[" + ", ".join(f"g{i}" for i in range(ng)) + "]"
                params = [("a", "int")] + [(f"g{i}", "int") for i in range(ng)] + [("T", "int")]
                pre = ["0 <= a <= 9"] + [f"0 <= g{i} <= 120" for i in range(ng)] + ["1 <= T <= 150"]
                tag = "".join(map(str, sup)) + "_p" + (str(pref) if pref >= 0 else "none") + ("_d" if distractor else "")
                obs.append(Ob(name=f"sel_{tag}", params=params, pre=pre,
                              call=f"H.nego_sel({list(sup)!r}, {pref}, 0, a, 0, {bool(distractor)}, {gl}, T)",
                              real=f"H.nego_sel_real({list(sup)!r}, {pref}, 0, a, 0, {bool(distractor)}, {gl}, T)",
                              backend="P", timeout=300, family="real+invented dates: answer by symbolic index, symbolic schedule"))
    for where in (0, 1, 2):
        for ln in ((1, 2) if tier == "quick" else (1, 2, 3)):
            obs.append(Ob(name=f"affix_w{where}_L{ln}", params=[("c", "str"), ("b", "bool")], pre=[f"len(c) == {ln}"], call=f"H.nego_affix(c, {where}, b)", backend="F", timeout=400,
                          family="answer = an offered version with a symbolic affix (appended / prepended / inserted)"))
    for tracked in (True, False):
        for be in ("P", "F"):
            if tier == "quick" and be == "F":
                continue
            obs.append(Ob(name=f"renego_{'tracked' if tracked else 'plain'}_{be}", params=[("ok1", "bool"), ("s1", "int"), ("a1", "int"), ("s2", "int"), ("a2", "int")],
                          pre=(["s1 in (0, 2)", "0 <= a1 <= 3", "s2 in (1, 3, 4)", "0 <= a2 <= 3"] if (tier == "quick" or be == "F") else ["0 <= s1 <= 4", "0 <= a1 <= 3", "0 <= s2 <= 4", "0 <= a2 <= 3"]) + (["ok1", "s1 == 0"] if be == "F" else []), call=f"H.renego(ok1, s1, a1, s2, a2, {tracked})", backend=be, timeout=900,
                          family="a second handshake on the same streams with another supported list (after a successful or a failed first one)"))
    from symcheck import consts
    nsz = len(consts.size_cases(70000, extra=(4096, 8192, 65536, 131072)))
    for form in range(5):
        obs.append(Ob(name=f"long_f{form}", params=[("k", "int")], pre=[f"0 <= k < {nsz}"], call=f"H.nego_long(k, {form})", backend="P", timeout=600,
                      family="size: version strings of c-1, c, c+1 extra characters (c: integer constants of the source and environment sizes)"))
    clim = 110 if tier == "quick" else 1100
    nc = len(consts.size_cases(clim))
    obs.append(Ob(name="many_supported", params=[("k", "int"), ("aw", "int"), ("pw", "int")], pre=[f"0 <= k < {nc}", "0 <= aw <= 3", "-1 <= pw <= 3"] + (["aw in (1, 3)", "pw in (-1, 2)"] if tier == "quick" else []),
                  call=f"H.nego_many(k, aw, pw, {clim})", backend="P", timeout=900, family="count: supported lists of c-1, c, c+1 entries"))
    return obs


def extra(tier, ctx):
    from symcheck import runner
    return runner.envdiff("harness.h_C14", 100 if tier == "quick" else 500, ctx["seed"])
