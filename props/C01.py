"""C01 obligations."""
import itertools
from symcheck.runner import Ob

ID = "C01"
HARNESS = "h_C01"
ASSUMPTIONS = [
    "virtual time: integer ticks of 1/128 s; an arrival at tick t is delivered iff t < deadline tick (arrivals sit half a tick after the nominal tick, deadlines on ticks)",
    "anyio.fail_after is replaced by a nested-deadline stub on the virtual clock; anyio memory streams by scripted/recording stubs (validated against real anyio on a virtual-time loop on every run)",
    "uuid.uuid4 returns fresh distinct values (counter)",
    "logging disabled; format() of symbolic non-str values is stubbed (DESIGN R3, R8)",
]
STUBS = ["VClock/fake_fail_after", "ScriptedReadStream", "RecordingWriteStream", "uuid4 counter", "format stub"]
OUTSIDE = ["more than 3 incoming messages with symbolic arrival times (quick: 2); longer streams only as n identical distractors, n from the source-constant cases <= 1100", "request ids longer than 3 characters in the symbolic-id family (longer ids: lengths from the source-constant cases <= 70000, fill concrete)", "progress callbacks that take time"]

KINDS = [0, 1, 2, 3, 4, 7]  # result, error, same-id request, other-id response, notification, batch
GAP_MAX, T_MAX = 256, 192


def gaps_pre(n):
    return [f"0 <= g{i} <= {GAP_MAX}" for i in range(n)]


def obligations(tier, ctx):
    obs = []
    nmax = 2 if tier == "quick" else 3
    for n in range(1, nmax + 1):
        for kt in itertools.product(KINDS, repeat=n):
            if tier == "quick" and n == 2 and not (set(kt) & {0, 1, 2}):
                pass
            params = [(f"g{i}", "int") for i in range(n)] + [("T", "int")]
            gl = "[" + ", ".join(f"g{i}" for i in range(n)) + "]"
            obs.append(Ob(
                name="sched_" + "".join(map(str, kt)),
                params=params,
                pre=gaps_pre(n) + [f"1 <= T <= {T_MAX}"],
                call=f"H.sched({kt!r}, {gl}, T)",
                real=f"H.sched_real({kt!r}, {gl}, T)",
                backend="P", timeout=120 if n < 3 else 240, family="schedule",
            ))
    # the same filter with a progress callback installed (progress with the right / a foreign token in the stream)
    cbk = [0, 2, 5, 6] if tier == "quick" else [0, 1, 2, 3, 4, 5, 6, 7]
    for n in (1, 2):
        for kt in itertools.product(cbk, repeat=n):
            gl = "[" + ", ".join(f"g{i}" for i in range(n)) + "]"
            obs.append(Ob(name="cb_" + "".join(map(str, kt)), params=[(f"g{i}", "int") for i in range(n)] + [("T", "int")],
                          pre=gaps_pre(n) + [f"1 <= T <= {T_MAX}"], call=f"H.sched_cb({kt!r}, {gl}, T)", real=f"H.sched_cb_real({kt!r}, {gl}, T)",
                          backend="P", timeout=180, family="schedule with progress callback"))
    # generated-id (uuid) path
    for kt in [(0,), (2, 0), (3, 1)]:
        n = len(kt)
        gl = "[" + ", ".join(f"g{i}" for i in range(n)) + "]"
        obs.append(Ob(name="autoid_" + "".join(map(str, kt)), params=[(f"g{i}", "int") for i in range(n)] + [("T", "int")],
                      pre=gaps_pre(n) + [f"1 <= T <= {T_MAX}"], call=f"H.autoid({kt!r}, {gl}, T)", backend="P", timeout=120, family="generated-id"))
    # symbolic ids under the pure-python backend (schedule concrete: gaps 1 tick, T = 100 ticks)
    idlen = 2 if tier == "quick" else 3
    for kt in [(3, 0), (0,), (2, 1), (3, 3, 1)]:
        for otype in (["str", "int"] if 3 in kt else ["int"]):
            obs.append(Ob(
                name=f"id_{''.join(map(str, kt))}_{otype}",
                params=[("rid", "str"), ("other", otype)],
                pre=[f"1 <= len(rid) <= {idlen}"] + ([f"len(other) <= {idlen}"] if otype == "str" else []) + ["other != rid"],
                call=f"H.idfam({kt!r}, {[1] * len(kt)!r}, 100, rid, other)", real=f"H.idfam_real({kt!r}, {[1] * len(kt)!r}, 100, rid, other)",
                backend="F", timeout=240, family="symbolic-id"))
    # method and params shapes
    for psel in range(6):
        obs.append(Ob(name=f"meth_p{psel}", params=[("method", "str"), ("leaf", "int"), ("gap", "int"), ("T", "int")],
                      pre=["1 <= len(method) <= 2", "0 <= gap <= 100", "1 <= T <= 150"],
                      call=f"H.methfam({psel}, method, leaf, gap, T)", backend="F", timeout=240, family="method-params"))
    # every discovered helper
    import subprocess, json, os
    from symcheck import runner
    names = discover(ctx)
    for nme in names:
        obs.append(Ob(name="helper_" + nme, params=[("g0", "int"), ("g1", "int"), ("T", "int")],
                      pre=["0 <= g0 <= 100", "0 <= g1 <= 100", "1 <= T <= 150"],
                      call=f"H.helper({nme!r}, [g0, g1], T, -32603)", backend="P", timeout=180, family="helper"))
    # size dimension: lengths and counts straddling every integer constant of the source tree
    from symcheck import consts
    clim = 410 if tier == "quick" else 1100
    nid, ncnt = len(consts.size_cases(70000)), len(consts.size_cases(clim))
    for where in range(4):
        for kt in ([(3, 0)] if tier == "quick" else [(3, 0), (3, 3, 1), (3,)]):
            obs.append(Ob(name=f"idlong_{''.join(map(str, kt))}_w{where}", params=[("k", "int")], pre=[f"0 <= k < {nid}"],
                          call=f"H.idlong({kt!r}, k, {where})", real=f"H.idlong_real({kt!r}, k, {where})", backend="P", timeout=400,
                          family="size: ids of every length c-1, c, c+1 for the integer constants c of the source (two ids sharing all but one position)"))
    for kt in ([(3, 0)] if tier == "quick" else [(3, 0), (3, 3, 1), (3,)]):
        obs.append(Ob(name=f"idnear_{''.join(map(str, kt))}", params=[("i", "int"), ("swap", "bool")], pre=["0 <= i <= 11"], call=f"H.idnear({kt!r}, i, swap)",
                      real=f"H.idnear_real({kt!r}, i, swap)", backend="P", timeout=300, family="near-equal id pairs (neighbours beyond 2^53 / 2^63 / double range, long strings, Unicode forms, str vs int)"))
    for fill in ((1,) if tier == "quick" else (0, 1, 2)):
        obs.append(Ob(name=f"paramlong_f{fill}", params=[("k", "int")], pre=[f"0 <= k < {nid}"], call=f"H.paramlong(k, {fill})", backend="P", timeout=400,
                      family="size: params leaf of every length c-1, c, c+1"))
    for kind in ((4,) if tier == "quick" else (4, 3, 2, 5)):
        obs.append(Ob(name=f"many_{kind}", params=[("k", "int")], pre=[f"0 <= k < {ncnt}"], call=f"H.many({kind}, k, 2000, {clim})", backend="P", timeout=900,
                      family="count: c-1, c, c+1 distractors before the answer"))
    for fe in (0, 1, 2):
        for reuse in (True, False):
            obs.append(Ob(name=f"two_calls_e{fe}_{'sameid' if reuse else 'otherid'}", params=[("g0", "int"), ("g1", "int"), ("g2", "int"), ("T1", "int")],
                          pre=["0 <= g0 <= 60", "0 <= g1 <= 100", "1 <= g2 <= 100", "61 <= T1 <= 130"], call=f"H.two_calls({fe}, {reuse}, g0, g1, g2, T1)",
                          real=f"H.two_calls_real({fe}, {reuse}, g0, g1, g2, T1)", backend="P", timeout=300,
                          family="an earlier call on the same streams (timed out / failed / answered), then a call with the same or another id"))
    from symcheck.runner import mirror
    obs += mirror(obs, r"^(sched_0|sched_2|sched_20|sched_31|cb_2|cb_50|autoid_0)$", "F", limit=(3 if tier == "quick" else None))
    return obs


def discover(ctx):
    """Helper names come from introspection of the tree under test (subprocess: the runner itself never imports chuk_mcp)."""
    import subprocess, json, os
    from symcheck import runner
    code = "import sys; sys.path.insert(0, %r); import harness.h_C01 as H, json; print('NAMES ' + json.dumps(list(H.HELPERS)))" % ctx["root"]
    o = runner.Ob(name="x", params=[], pre=[], call="")
    p = subprocess.run([runner.PY, "-c", code], env=runner.base_env(o), capture_output=True, text=True)
    for l in p.stdout.splitlines():
        if l.startswith("NAMES "):
            return json.loads(l[6:])
    raise RuntimeError("helper discovery failed: " + p.stderr[-500:])


def extra(tier, ctx):
    # the stub world (virtual clock, scripted streams) is shared with C14: validate it against real anyio
    from symcheck import runner
    return runner.envdiff("harness.h_C14", 200 if tier == "quick" else 1500, ctx["seed"])
