import itertools
from symcheck.runner import Ob

ID = "C14"
HARNESS = "h_C14"
ASSUMPTIONS = [
    "virtual time in ticks of 1/128 s; arrivals sit half a tick after their nominal tick, the cancel trigger a quarter tick after its tick, deadlines on ticks",
    "the cancellation token is triggered by the environment when the clock passes tick c",
    "'within one polling interval' is read as: cancellation error no later than c + 64 ticks (0.5 s); a response that arrives after the trigger but before the poll that observes it may still complete the request",
    "progress callback returns immediately (takes no virtual time)",
]
STUBS = ["VClock/fake_fail_after", "ScriptedReadStream", "RecordingWriteStream", "uuid4 counter", "format stub"]
OUTSIDE = ["more than 3 messages of traffic (quick: 2)", "callbacks that suspend", "gaps above 2 s, timeouts above 1.5 s except in the count family (n quiet polling intervals, n from the source-constant cases <= 110 (quick) / 410 (thorough))"]

K = [4, 3, 5, 10, 11, 6, 0, 1]  # notification, other-id response, progress full/partial/empty, foreign progress, result, error
GAP_MAX, T_MAX, C_MAX = 256, 192, 300


def obligations(tier, ctx):
    obs = []
    nmax = 2 if tier == "quick" else 3
    kinds = [4, 3, 5, 6, 0] if tier == "quick" else K
    for n in range(0, nmax + 1):
        for kt in itertools.product(kinds, repeat=n):
            if n == 3 and tier != "quick" and len(set(kt) & {10, 11, 1}) > 1:
                continue  # thorough n=3: at most one of the rarer kinds per tuple (cost)
            gl = "[" + ", ".join(f"g{i}" for i in range(n)) + "]"
            tag = "_".join(map(str, kt)) or "none"
            nprog = sum(1 for k in kt if k in (5, 10, 11))
            params = [(f"g{i}", "int") for i in range(n)] + [("T", "int"), ("c", "int"), ("ra", "int")]
            pre = [f"0 <= g{i} <= {GAP_MAX}" for i in range(n)] + [f"1 <= T <= {T_MAX}", f"0 <= c <= {C_MAX}", f"-1 <= ra <= {max(nprog - 1, -1)}"]
            obs.append(Ob(name=f"traffic_{tag}", params=params, pre=pre, call=f"H.traffic({kt!r}, {gl}, T, c, ra)",
                          real=f"H.traffic_real({kt!r}, {gl}, T, c, ra)", backend="P", timeout=240 if n < 3 else 400, family="cancel-at-c"))
    if tier == "quick":
        for kt in [(11,), (10, 0), (5, 11), (1,), (4, 1)]:
            n = len(kt)
            gl = "[" + ", ".join(f"g{i}" for i in range(n)) + "]"
            nprog = sum(1 for k in kt if k in (5, 10, 11))
            obs.append(Ob(name="traffic_" + "_".join(map(str, kt)), params=[(f"g{i}", "int") for i in range(n)] + [("T", "int"), ("c", "int"), ("ra", "int")],
                          pre=[f"0 <= g{i} <= {GAP_MAX}" for i in range(n)] + [f"1 <= T <= {T_MAX}", f"0 <= c <= {C_MAX}", f"-1 <= ra <= {max(nprog - 1, -1)}"],
                          call=f"H.traffic({kt!r}, {gl}, T, c, ra)", real=f"H.traffic_real({kt!r}, {gl}, T, c, ra)", backend="P", timeout=240, family="cancel-at-c"))
    if tier != "quick":
        # floods: four messages of one kind (gaps >= 0 ticks, i.e. down to back-to-back), then optionally the response
        for kt in [(4, 4, 4, 4), (3, 3, 3, 3), (6, 6, 6, 6), (5, 5, 5, 5), (4, 4, 4, 0), (3, 4, 3, 0)]:
            n = len(kt)
            gl = "[" + ", ".join(f"g{i}" for i in range(n)) + "]"
            nprog = sum(1 for k in kt if k in (5, 10, 11))
            obs.append(Ob(name="flood_" + "_".join(map(str, kt)), params=[(f"g{i}", "int") for i in range(n)] + [("T", "int"), ("c", "int"), ("ra", "int")],
                          pre=[f"0 <= g{i} <= 70" for i in range(n)] + [f"1 <= T <= {T_MAX}", f"0 <= c <= {C_MAX}", f"-1 <= ra <= {max(nprog - 1, -1)}"],
                          call=f"H.traffic({kt!r}, {gl}, T, c, ra)", real=f"H.traffic_real({kt!r}, {gl}, T, c, ra)", backend="P", timeout=900, family="floods (4 messages, gaps 0..70 ticks)"))
    for kt in [(0,), (4, 0), ()]:
        n = len(kt)
        gl = "[" + ", ".join(f"g{i}" for i in range(n)) + "]"
        obs.append(Ob(name="ids_" + ("_".join(map(str, kt)) or "none"), params=[(f"g{i}", "int") for i in range(n)] + [("T", "int"), ("c", "int"), ("idsel", "int")],
                      pre=[f"0 <= g{i} <= {GAP_MAX}" for i in range(n)] + [f"1 <= T <= {T_MAX}", f"0 <= c <= {C_MAX}", "0 <= idsel <= 4"],
                      call=f"H.traffic_id({kt!r}, {gl}, T, c, idsel)", backend="P", timeout=300, family="other request ids (integers beyond 2^53, digit strings)"))
    for kt in [(), (0,), (5, 0)]:
        n = len(kt)
        gl = "[" + ", ".join(f"g{i}" for i in range(n)) + "]"
        tag = "_".join(map(str, kt)) or "none"
        obs.append(Ob(name=f"precancelled_{tag}", params=[(f"g{i}", "int") for i in range(n)] + [("T", "int")],
                      pre=[f"0 <= g{i} <= {GAP_MAX}" for i in range(n)] + [f"1 <= T <= {T_MAX}"],
                      call=f"H.precancelled({kt!r}, {gl}, T)", real=f"H.precancelled_real({kt!r}, {gl}, T)", backend="P", timeout=120, family="cancelled-before-sending"))
    for kt in [(5, 0), (5, 5), (4, 4)]:
        n = len(kt)
        gl = "[" + ", ".join(f"g{i}" for i in range(n)) + "]"
        tag = "_".join(map(str, kt))
        obs.append(Ob(name=f"nocancel_{tag}", params=[(f"g{i}", "int") for i in range(n)] + [("T", "int"), ("ra", "int")],
                      pre=[f"0 <= g{i} <= {GAP_MAX}" for i in range(n)] + [f"1 <= T <= {T_MAX}", "-1 <= ra <= 1"],
                      call=f"H.nocancel({kt!r}, {gl}, T, ra)", real=f"H.nocancel_real({kt!r}, {gl}, T, ra)", backend="P", timeout=240, family="token-never-triggered"))
    from symcheck import consts
    lim = 110 if tier == "quick" else 410
    nc = len(consts.size_cases(lim))
    for mode in (0, 1, 2, 3):
        obs.append(Ob(name=f"late_m{mode}", params=[("k", "int"), ("off", "int"), ("g", "int")], pre=[f"0 <= k < {nc}", "0 <= off <= 63", (("0 <= g <= 64" if tier != "quick" else "0 <= g <= 40") if mode == 1 else "g == 0")],
                      call=f"H.late(k, off, {mode}, g, {lim})", real=f"H.late_real(k, off, {mode}, g, {lim})", backend="P", timeout=900,
                      family="count: cancel / deadline / response after c-1, c, c+1 polling intervals (c: integer constants of the source), symbolic offset inside the interval"))
    from symcheck.runner import mirror
    obs += mirror(obs, r"^(traffic_none|traffic_0|traffic_5|precancelled_0|ids_0)$", "F", limit=(2 if tier == "quick" else None))
    return obs


def extra(tier, ctx):
    from symcheck import runner
    return runner.envdiff("harness.h_C14", 200 if tier == "quick" else 1500, ctx["seed"])
