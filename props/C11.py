import itertools
from symcheck.runner import Ob

ID = "C11"
HARNESS = "h_C11"
ASSUMPTIONS = [
    "httpx is replaced by a fake with the documented behaviour: post() returns a response (status, case-insensitive headers, body bytes; .text decodes with replacement, .json() = json.loads(content)) or raises the given httpx/asyncio exception",
    "reference SSE parser written from the WHATWG event-stream rules (field:value with one optional space, comments, default event type 'message', multi-line data joined by LF, dispatch on blank line); every event of a generated stream is terminated by a blank line; lone-CR line ends are outside",
    "for a successful status the messages delivered must equal the JSON-RPC messages the body contains (JSON value(s) or the reference SSE parse), in order; if the body contains none, or the status is >= 400, or post raised: exactly one synthesised terminal message (result or error, valid JSON-RPC) with the request's id (value and JSON type) for a request, and no message carrying an id for a notification",
    "a response body carrying a message with a different id is the server's message and is delivered as is (no terminal message is synthesised in that case)",
    "session ids are non-empty strings issued on non-error responses, chosen by symbolic index from {none, sess-A, sess-B, s} (the code only forwards and compares them; fully symbolic header strings made the engine enumerate characters)",
]
STUBS = ["FakeHttpx (AsyncClient/Response/Headers)", "recording incoming stream", "async-iterator outgoing stream"]
OUTSIDE = ["SSE streams of more than 2 (quick) / 3 lines per obligation with a symbolic payload character", "streamed (chunked) reading of the HTTP body - the response is read whole", "more than 3 POSTs in a sequence", "real sockets, TLS, redirects"]

SK = ["d1", "d2", "em", "eo", "c", "b", "id"]


def obligations(tier, ctx):
    obs = []
    nmax = 2 if tier == "quick" else 3
    for n in range(1, nmax + 1):
        for kt in itertools.product(SK, repeat=n):
            if "d1" not in kt and "d2" not in kt:
                continue  # no data line: nothing to deliver, covered by the matrix (empty / comment-only bodies)
            if n == 3 and tier != "quick" and kt.count("d1") > 1:
                continue
            if tier == "quick" and kt in (("d2", "d1"), ("d1", "d1")):
                continue  # two data lines with the symbolic payload last: 120-150 s each, thorough tier only
            sp = [f"s{i}" for i in range(n)]
            cr = [f"c{i}" for i in range(n)]
            if n <= 2 or "d1" not in kt:
                params = [(x, "bool") for x in sp + cr] + [("p1", "str")]
                pre = ["len(p1) <= 1", "chr(10) not in p1 and chr(13) not in p1"]
                call = f"H.sse_grammar({kt!r}, [{', '.join(sp)}], [{', '.join(cr)}], p1)"
            else:
                # three lines with the variable payload: its tail comes from six classes by symbolic index (a fully
                # symbolic character did not finish in 300 s for 43 of these tuples)
                params = [(x, "bool") for x in sp + cr] + [("p", "int")]
                pre = ["0 <= p <= 5"]
                call = f"H.sse_grammar_sel({kt!r}, [{', '.join(sp)}], [{', '.join(cr)}], p)"
            obs.append(Ob(name="sse_" + "_".join(kt), params=params, pre=pre, call=call, backend="P", timeout=400,
                          family="(a) SSE body grammar vs WHATWG reference"))
    if tier == "quick":
        # a few three-line streams in the quick tier too: state must not leak across the blank line that ends an event
        for kt in [("eo", "b", "d2"), ("d2", "b", "d2"), ("id", "b", "d2")]:
            if "d1" not in kt and "d2" not in kt:
                continue
            n = 3
            sp = [f"s{i}" for i in range(n)]
            cr = [f"c{i}" for i in range(n)]
            obs.append(Ob(name="sse_" + "_".join(kt), params=[(x, "bool") for x in sp + cr] + [("p1", "str")],
                          pre=["len(p1) <= 1", "chr(10) not in p1 and chr(13) not in p1"],
                          call=f"H.sse_grammar({kt!r}, [{', '.join(sp)}], [{', '.join(cr)}], p1)", backend="P", timeout=300,
                          family="(a) SSE body grammar vs WHATWG reference"))
    # (b) matrix, one POST
    for sse in (False, True):
        for b in range(8 if sse else 13):
            obs.append(Ob(name=f"post_{'sse' if sse else 'body'}{b}", params=[("status", "int"), ("ct", "int"), ("idsel", "int"), ("typed", "bool")],
                          pre=["200 <= status <= 599", "0 <= ct <= 3" if not sse else "ct == 0", "0 <= idsel <= 3"],
                          call=f"H.matrix1(status, ct, {b}, {sse}, 0, idsel, typed)", backend="P", timeout=300, family="(b) status x content-type x body x id"))
    for e in (1, 2, 3, 4):
        obs.append(Ob(name=f"post_exc{e}", params=[("idsel", "int"), ("typed", "bool")], pre=["0 <= idsel <= 3"],
                      call=f"H.matrix1(200, 0, 0, False, {e}, idsel, typed)", backend="P", timeout=120, family="(b) transport exceptions"))
    # (c) sequences through the sender loop
    seqs = [
        [(500, 0, 0, False, 0, 0), (200, 0, 0, False, 0, 1)],
        [(200, 0, 0, False, 1, 0), (200, 0, 0, True, 0, 0)],
        [(200, 0, 3, True, 0, 1), (200, 0, 1, False, 0, 0)],
        [(200, 0, 0, False, 0, 3), (404, 2, 5, False, 0, 3), (200, 0, 0, False, 0, 0)],
    ]
    if tier != "quick":
        seqs += [
            [(200, 0, 5, False, 0, 0), (200, 3, 3, False, 0, 1), (202, 2, 3, False, 0, 3)],
            [(200, 0, 0, False, 2, 3), (200, 0, 2, True, 0, 2), (200, 0, 0, False, 0, 1)],
            [(302, 0, 6, False, 0, 0), (200, 0, 7, False, 0, 1), (200, 0, 0, False, 0, 0)],
        ]
    for sse in (False, True):
        for b in ((0, 3, 5) if tier == "quick" else range(8 if sse else 13)):
            if sse and b == 5:
                continue
            obs.append(Ob(name=f"session_{'sse' if sse else 'body'}{b}", params=[("status", "int"), ("ct", "int"), ("idsel", "int"), ("before", "bool")],
                          pre=["200 <= status <= 399", "0 <= ct <= 3" if not sse else "ct == 0", "0 <= idsel <= 3"],
                          call=f"H.session_after(status, ct, {b}, {sse}, idsel, before)", backend="P", timeout=300,
                          family="(c) a session id issued by ANY non-error response is carried by the next request"))
    for i, sq in enumerate(seqs):
        obs.append(Ob(name=f"seq{i}", params=[("a", "int"), ("b", "int")], pre=["0 <= a <= 3", "0 <= b <= 3"],
                      call=f"H.sequence_sel({sq!r}, a, b)", backend="P", timeout=200,
                      family="(c) sequences through the sender loop; session ids issued by POST 0 / POST 1 from {none, A, B, s}"))
    from symcheck import consts
    ENV_SIZES = (4096, 8192, 65536, 131072)
    nsz = len(consts.size_cases(70000, extra=ENV_SIZES))
    for form in range(4):
        for pat in (((6, 7, 8) if form == 3 else (6,)) if tier == "quick" else (0, 2, 4, 5, 6, 7, 8)):
            obs.append(Ob(name=f"big_f{form}_p{pat}", params=[("k", "int"), ("idsel", "int"), ("typed", "bool")], pre=[f"0 <= k < {nsz}", "0 <= idsel <= 2"] + (["idsel == 1", "typed"] if tier == "quick" else []),
                          call=f"H.post_big(k, {pat}, {form}, idsel, typed)", backend="P", timeout=900,
                          family="(d) size: answers carrying a string of c-1, c, c+1 characters (c: integer constants of the source and environment sizes)"))
    clim = 110 if tier == "quick" else 410
    nc = len(consts.size_cases(clim))
    obs.append(Ob(name="many_events", params=[("k", "int"), ("idsel", "int")], pre=[f"0 <= k < {nc}", ("idsel == 1" if tier == "quick" else "0 <= idsel <= 2")], call=f"H.post_many(k, idsel, {clim})", backend="P", timeout=900,
                  family="(d) count: SSE body with c-1, c, c+1 notifications before the response"))
    nlim = 62 if tier == "quick" else 210
    nn = len(consts.size_cases(nlim))
    obs.append(Ob(name="nth_post", params=[("k", "int"), ("idsel", "int")], pre=[f"0 <= k < {nn}", ("idsel == 1" if tier == "quick" else "0 <= idsel <= 2")], call=f"H.posts_nth(k, idsel, {nlim})", backend="P", timeout=900,
                  family="(d) count: the (n+1)-th POST on one transport"))
    nb = len(consts.size_cases(12))
    for form in (0, 1):
        obs.append(Ob(name=f"bounded_f{form}", params=[("k", "int"), ("cap", "int"), ("idsel", "int")], pre=[f"0 <= k < {nb}", "1 <= cap <= 3", "0 <= idsel <= 2"] + (["idsel == 1"] if tier == "quick" else []),
                      call=f"H.posts_bounded(k, cap, idsel, {form})", backend="P", timeout=900, family="(d) back-pressure: read stream of symbolic capacity 1..3 and a late reader, 0..12 earlier requests"))
    from harness_sizes_n import N_TEXTS
    for form in range(3):
        obs.append(Ob(name=f"text_f{form}", params=[("i", "int"), ("idsel", "int")], pre=[f"0 <= i < {N_TEXTS}", "0 <= idsel <= 2"] + (["idsel == 0"] if tier == "quick" else []),
                      call=f"H.post_text(i, {form}, idsel)", backend="P", timeout=600, family="(d) content corpus: answers carrying 'active' text raw"))
    from symcheck.runner import mirror
    obs += mirror(obs, r"^(post_body(0|1|7|9|11|12)|post_sse(0|3|7)|post_exc1|seq0|session_body0)$", "F", limit=(4 if tier == "quick" else None))
    return obs
