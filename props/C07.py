from symcheck.runner import Ob
from props.C01 import discover

ID = "C07"
HARNESS = "h_C07"
ASSUMPTIONS = [
    "the documented permanent-code set is the reference constant REF_NON_RETRYABLE of the harness (from the doc comments of types/errors.py at the pinned commit)",
    "format() of a symbolic int yields a placeholder (R3): the text of the exception message is not inspected beyond containing the server's message string",
    "schedule concrete (gap 1 tick, timeout 100 ticks) - the schedule quantifier belongs to C01/C14",
]
STUBS = ["VClock/fake_fail_after", "ScriptedReadStream", "RecordingWriteStream", "format stub", "uuid4 counter"]
OUTSIDE = ["symbolic error message strings longer than 2 characters (longer messages: lengths from the source-constant cases <= 70000 with five concrete fill patterns)", "error data beyond the listed shapes"]


def obligations(tier, ctx):
    obs = [
        Ob(name="sets", params=[("code", "int")], pre=[], call="H.sets(code)", backend="P", timeout=60, family="sets"),
        Ob(name="process_nomsg", params=[("code", "int")], pre=[], call="H.process_nomsg(code)", backend="P", timeout=60, family="process"),
        Ob(name="process_nocode", params=[("x", "int")], pre=["x == 0"], call="H.process_nocode()", backend="P", timeout=60, family="process"),
    ]
    for dsel in (0, 1, 2, 3):
        obs.append(Ob(name=f"process_m0_d{dsel}", params=[("code", "int"), ("leaf", "int")],
                      pre=[], call=f"H.process(code, 0, '', {dsel}, leaf)",
                      backend="F", timeout=120, family="process"))
    # the server's message text is carried: symbolic message, code concrete per obligation (format of a symbolic
    # int next to a symbolic str in one f-string is what does not confirm)
    for code in (-32601, -32603, 7):
        obs.append(Ob(name=f"process_msg_c{abs(code)}", params=[("message", "str")],
                      pre=["len(message) <= 2"], call=f"H.process({code}, 1, message, 0, 0)",
                      backend="F", timeout=120, family="process"))
    for dsel in (0, 2):
        obs.append(Ob(name=f"api_d{dsel}", params=[("code", "int"), ("leaf", "int")], pre=[],
                      call=f"H.api(code, {dsel}, leaf)", backend="F", timeout=180, family="api"))
    # size dimension (lengths straddling every integer constant of the source tree; fill patterns concrete)
    from symcheck import consts
    nsz = len(consts.size_cases(70000))
    for code in (-32601, -32603):
        for pat in ((0, 6, 7, 8) if tier == "quick" else (0, 1, 2, 3, 4, 6, 7, 8)):
            obs.append(Ob(name=f"process_long_c{abs(code)}_p{pat}", params=[("k", "int")], pre=[f"0 <= k < {nsz}"], call=f"H.process_long({code}, k, {pat}, False)",
                          backend="P", timeout=300, family="size: error message of every length c-1, c, c+1 for the integer constants c of the source"))
    for pat in ((7,) if tier == "quick" else (0, 2, 4, 6, 7, 8)):
        obs.append(Ob(name=f"process_longdata_p{pat}", params=[("k", "int")], pre=[f"0 <= k < {nsz}"], call=f"H.process_long(-32603, k, {pat}, True)",
                      backend="P", timeout=300, family="size: error data of every length c-1, c, c+1"))
        obs.append(Ob(name=f"api_long_p{pat}", params=[("k", "int")], pre=[f"0 <= k < {nsz}"], call=f"H.api_long(-32602, k, {pat})",
                      backend="P", timeout=300, family="size: error message of every length c-1, c, c+1 for the integer constants c of the source"))
    from harness_sizes_n import N_TEXTS
    for code in (-32601, -32603):
        for be in ("P", "F"):
            obs.append(Ob(name=f"process_text_c{abs(code)}_{be}", params=[("i", "int"), ("d", "bool")], pre=[f"0 <= i < {N_TEXTS}"], call=f"H.process_text({code}, i, d)", backend=be, timeout=300,
                          family="content corpus: error message / data that is a %-template, a format template, has separators, BOM, looks like JSON or a number, ..."))
    obs.append(Ob(name="api_text", params=[("i", "int")], pre=[f"0 <= i < {N_TEXTS}"], call="H.api_text(-32602, i)", backend="P", timeout=300,
                  family="content corpus: error message / data that is a %-template, a format template, has separators, BOM, looks like JSON or a number, ..."))
    for n in discover(ctx):
        obs.append(Ob(name="helper_" + n, params=[("code", "int")], pre=[], call=f"H.helper({n!r}, code)", backend="F", timeout=240, family="helper"))
    return obs
